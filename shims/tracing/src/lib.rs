//! Verification shim for the `tracing` crate (see /verif/DESIGN.md §3.4).
//! All event macros expand to `()` without evaluating their arguments; spans are inert.
#![allow(missing_docs, dead_code, unused)]

#[macro_export] macro_rules! trace { ($($t:tt)*) => { () }; }
#[macro_export] macro_rules! debug { ($($t:tt)*) => { () }; }
#[macro_export] macro_rules! info  { ($($t:tt)*) => { () }; }
#[macro_export] macro_rules! warn  { ($($t:tt)*) => { () }; }
#[macro_export] macro_rules! error { ($($t:tt)*) => { () }; }
#[macro_export] macro_rules! event { ($($t:tt)*) => { () }; }
#[macro_export] macro_rules! enabled { ($($t:tt)*) => { false }; }
#[macro_export] macro_rules! event_enabled { ($($t:tt)*) => { false }; }
#[macro_export] macro_rules! span_enabled { ($($t:tt)*) => { false }; }

#[macro_export] macro_rules! span { ($($t:tt)*) => { $crate::Span::none() }; }
#[macro_export] macro_rules! trace_span { ($($t:tt)*) => { $crate::Span::none() }; }
#[macro_export] macro_rules! debug_span { ($($t:tt)*) => { $crate::Span::none() }; }
#[macro_export] macro_rules! info_span  { ($($t:tt)*) => { $crate::Span::none() }; }
#[macro_export] macro_rules! warn_span  { ($($t:tt)*) => { $crate::Span::none() }; }
#[macro_export] macro_rules! error_span { ($($t:tt)*) => { $crate::Span::none() }; }

#[derive(Clone, Copy, Debug, PartialEq, Eq, PartialOrd, Ord, Hash)]
pub struct Level(u8);
impl Level {
    pub const ERROR: Level = Level(1);
    pub const WARN: Level = Level(2);
    pub const INFO: Level = Level(3);
    pub const DEBUG: Level = Level(4);
    pub const TRACE: Level = Level(5);
}

#[derive(Clone, Debug, Default, PartialEq, Eq, Hash)]
pub struct Span;

#[derive(Clone, Debug, PartialEq, Eq, Hash)]
pub struct Id(u64);

pub mod span {
    pub use super::{Id, Span};
    #[derive(Debug)]
    pub struct Entered<'a>(pub(crate) core::marker::PhantomData<&'a ()>);
    #[derive(Debug, Clone)]
    pub struct EnteredSpan(pub(crate) ());
    impl EnteredSpan {
        pub fn exit(self) -> Span { Span }
        pub fn id(&self) -> Option<Id> { None }
    }
    impl core::ops::Deref for EnteredSpan {
        type Target = Span;
        fn deref(&self) -> &Span { &super::NONE }
    }
}
static NONE: Span = Span;

impl Span {
    pub const fn none() -> Span { Span }
    pub fn current() -> Span { Span }
    pub fn enter(&self) -> span::Entered<'_> { span::Entered(core::marker::PhantomData) }
    pub fn entered(self) -> span::EnteredSpan { span::EnteredSpan(()) }
    pub fn in_scope<F: FnOnce() -> T, T>(&self, f: F) -> T { f() }
    pub fn is_none(&self) -> bool { true }
    pub fn is_disabled(&self) -> bool { true }
    pub fn id(&self) -> Option<Id> { None }
    pub fn record<Q: ?Sized, V>(&self, _field: &Q, _value: V) -> &Self { self }
    pub fn follows_from<T>(&self, _from: T) -> &Self { self }
    pub fn or_current(self) -> Self { self }
    pub fn has_field<Q: ?Sized>(&self, _field: &Q) -> bool { false }
}

pub mod field {
    #[derive(Debug, Clone, Copy)]
    pub struct Empty;
    pub fn debug<T: core::fmt::Debug>(t: T) -> T { t }
    pub fn display<T: core::fmt::Display>(t: T) -> T { t }
}

pub mod instrument {
    use super::Span;
    use core::{future::Future, pin::Pin, task::{Context, Poll}};

    #[derive(Debug, Clone)]
    pub struct Instrumented<T> { inner: T, span: Span }

    impl<T> Instrumented<T> {
        pub fn span(&self) -> &Span { &self.span }
        pub fn span_mut(&mut self) -> &mut Span { &mut self.span }
        pub fn inner(&self) -> &T { &self.inner }
        pub fn inner_mut(&mut self) -> &mut T { &mut self.inner }
        pub fn inner_pin_ref(self: Pin<&Self>) -> Pin<&T> {
            unsafe { self.map_unchecked(|s| &s.inner) }
        }
        pub fn inner_pin_mut(self: Pin<&mut Self>) -> Pin<&mut T> {
            unsafe { self.map_unchecked_mut(|s| &mut s.inner) }
        }
        pub fn into_inner(self) -> T { self.inner }
    }

    impl<T: Future> Future for Instrumented<T> {
        type Output = T::Output;
        fn poll(self: Pin<&mut Self>, cx: &mut Context<'_>) -> Poll<Self::Output> {
            self.inner_pin_mut().poll(cx)
        }
    }

    pub trait Instrument: Sized {
        fn instrument(self, span: Span) -> Instrumented<Self> { Instrumented { inner: self, span } }
        fn in_current_span(self) -> Instrumented<Self> { Instrumented { inner: self, span: Span } }
    }
    impl<T: Sized> Instrument for T {}

    pub trait WithSubscriber: Sized {}
}
pub use instrument::Instrument;

pub mod dispatcher {
    #[derive(Clone, Debug, Default)]
    pub struct Dispatch;
    pub fn get_default<T, F: FnMut(&Dispatch) -> T>(mut f: F) -> T { f(&Dispatch) }
}
pub use dispatcher::Dispatch;

pub mod subscriber {
    pub trait Subscriber {}
}
pub use subscriber::Subscriber;
