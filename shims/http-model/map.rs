//! Verification model of `http::HeaderMap` (see /verif/DESIGN.md §3.4).
//!
//! Same public API as http-1.5.0's `header::map`, but the container is a small *inline* array of groups
//! `(name, values)` searched linearly: no hashing, no robin-hood probing, no index table, no raw-pointer links and
//! no heap allocation (CBMC propagates constants through stack arrays, not through heap buffers).
//! Capacity of the model: MAXG distinct names, MAXV values per name; exceeding it panics with the marker
//! "HTTP-MODEL-CAPACITY", which the runner reports as *inconclusive*, never as a pass or a violation.
//! Behaviour that tonic relies on is preserved:
//!   * at most one group per name; `insert` replaces all values of a name, `append` adds one;
//!   * iteration yields groups in insertion order of their first `insert`/`append`, values of a group in order;
//!   * `extend` from another map's `into_iter()` replaces same-named groups (as the real Entry-based code does);
//!   * names given as `&str` are parsed with the real `HeaderName::from_bytes` (lower-casing, validation).
//! Like the real map, `remove` moves the last entry into the hole (iteration order of *distinct* names is not
//! stable across removals).  Capacity is not modelled.
#![allow(missing_docs, clippy::all, unexpected_cfgs)]

use std::collections::HashMap;
use std::convert::TryFrom;
use std::hash::Hash;
use std::iter::{FromIterator, FusedIterator};
use std::marker::PhantomData;
use std::{fmt, ops};

use crate::Error;

use super::name::{HeaderName, InvalidHeaderName};
use super::HeaderValue;

pub use self::as_header_name::AsHeaderName;
pub use self::into_header_name::IntoHeaderName;

const MAX_SIZE: usize = 1 << 15;

/// distinct names per map / values per name that the model can hold
#[cfg(not(http_model_big))]
const MAXG: usize = 4;
#[cfg(not(http_model_big))]
const MAXV: usize = 3;
// `--cfg http_model_big` is only used to validate the model natively against http's own header_map tests
#[cfg(http_model_big)]
const MAXG: usize = 128;
#[cfg(http_model_big)]
const MAXV: usize = 8;

#[cold]
fn model_capacity_exceeded() -> ! {
    panic!("HTTP-MODEL-CAPACITY: the HeaderMap verification model holds at most 4 names with 3 values each")
}

/// fixed-capacity inline vector
struct Inline<T, const N: usize> {
    items: [Option<T>; N],
    len: usize,
}

impl<T, const N: usize> Inline<T, N> {
    #[inline]
    fn new() -> Self {
        Inline { items: [const { None }; N], len: 0 }
    }
    #[inline]
    fn len(&self) -> usize {
        self.len
    }
    #[inline]
    fn is_empty(&self) -> bool {
        self.len == 0
    }
    fn clear(&mut self) {
        let mut i = 0;
        while i < N {
            self.items[i] = None;
            i += 1;
        }
        self.len = 0;
    }
    fn push(&mut self, v: T) {
        if self.len >= N {
            model_capacity_exceeded();
        }
        self.items[self.len] = Some(v);
        self.len += 1;
    }
    fn swap_remove(&mut self, i: usize) -> T {
        assert!(i < self.len);
        let v = self.items[i].take().unwrap();
        self.len -= 1;
        if i != self.len {
            self.items[i] = self.items[self.len].take();
        }
        v
    }
    #[inline]
    fn get(&self, i: usize) -> &T {
        assert!(i < self.len);
        self.items[i].as_ref().unwrap()
    }
    #[inline]
    fn get_mut(&mut self, i: usize) -> &mut T {
        assert!(i < self.len);
        self.items[i].as_mut().unwrap()
    }
    /// move the i-th element out, leaving a hole (only used by consuming iterators)
    #[inline]
    fn take_at(&mut self, i: usize) -> Option<T> {
        if i < N {
            self.items[i].take()
        } else {
            None
        }
    }
    #[inline]
    fn take_all(&mut self) -> Self {
        std::mem::replace(self, Inline::new())
    }
}

impl<T: Clone, const N: usize> Clone for Inline<T, N> {
    fn clone(&self) -> Self {
        // a plain loop over a pre-filled array (core::array::from_fn goes through MaybeUninit guards that are
        // expensive for the model checker)
        let mut out: Inline<T, N> = Inline::new();
        let mut i = 0;
        while i < N {
            if i < self.len {
                out.items[i] = self.items[i].clone();
            }
            i += 1;
        }
        out.len = self.len;
        out
    }
}

impl<T, const N: usize> fmt::Debug for Inline<T, N> {
    fn fmt(&self, f: &mut fmt::Formatter<'_>) -> fmt::Result {
        f.debug_struct("Inline").finish()
    }
}

#[derive(Clone)]
pub struct HeaderMap<T = HeaderValue> {
    groups: Inline<Group<T>, MAXG>,
}

#[derive(Clone)]
struct Group<T> {
    key: HeaderName,
    values: Inline<T, MAXV>, // never empty
}

impl<T> Group<T> {
    fn single(key: HeaderName, value: T) -> Self {
        let mut values = Inline::new();
        values.push(value);
        Group { key, values }
    }
    #[inline]
    fn count(&self) -> usize {
        self.values.len()
    }
    #[inline]
    fn value(&self, i: usize) -> &T {
        self.values.get(i)
    }
    #[inline]
    fn value_mut(&mut self, i: usize) -> &mut T {
        self.values.get_mut(i)
    }
    /// replace all values by one, returning the old first value
    fn replace_all(&mut self, value: T) -> T {
        let old = self.values.swap_remove(0);
        self.values.clear();
        self.values.push(value);
        old
    }
}

#[derive(Debug)]
pub struct Iter<'a, T> {
    map: &'a HeaderMap<T>,
    g: usize,
    v: usize,
}

#[derive(Debug)]
pub struct IterMut<'a, T> {
    map: *mut HeaderMap<T>,
    g: usize,
    v: usize,
    lt: PhantomData<&'a mut HeaderMap<T>>,
}

#[derive(Debug)]
pub struct IntoIter<T> {
    groups: Inline<Group<T>, MAXG>,
    g: usize,
    v: usize,
}

#[derive(Debug)]
pub struct Keys<'a, T> {
    map: &'a HeaderMap<T>,
    g: usize,
}

#[derive(Debug)]
pub struct Values<'a, T> {
    inner: Iter<'a, T>,
}

#[derive(Debug)]
pub struct ValuesMut<'a, T> {
    inner: IterMut<'a, T>,
}

#[derive(Debug)]
pub struct Drain<'a, T> {
    inner: IntoIter<T>,
    lt: PhantomData<&'a mut HeaderMap<T>>,
}

#[derive(Debug)]
pub struct GetAll<'a, T> {
    map: &'a HeaderMap<T>,
    index: Option<usize>,
}

#[derive(Debug)]
pub enum Entry<'a, T: 'a> {
    Occupied(OccupiedEntry<'a, T>),
    Vacant(VacantEntry<'a, T>),
}

#[derive(Debug)]
pub struct VacantEntry<'a, T> {
    map: &'a mut HeaderMap<T>,
    key: HeaderName,
}

#[derive(Debug)]
pub struct OccupiedEntry<'a, T> {
    map: &'a mut HeaderMap<T>,
    index: usize,
}

#[derive(Debug)]
pub struct ValueIter<'a, T> {
    group: Option<&'a Group<T>>,
    front: usize,
    back: usize, // exclusive
}

#[derive(Debug)]
pub struct ValueIterMut<'a, T> {
    group: *mut Group<T>,
    front: usize,
    back: usize,
    lt: PhantomData<&'a mut HeaderMap<T>>,
}

#[derive(Debug)]
pub struct ValueDrain<'a, T> {
    items: Inline<T, MAXV>,
    pos: usize,
    count: usize,
    lt: PhantomData<&'a mut HeaderMap<T>>,
}

pub struct MaxSizeReached {
    _priv: (),
}

impl<T: fmt::Debug> fmt::Debug for Group<T> {
    fn fmt(&self, f: &mut fmt::Formatter<'_>) -> fmt::Result {
        f.debug_struct("Group").finish()
    }
}

// ===== impl HeaderMap =====

impl HeaderMap {
    pub fn new() -> Self {
        HeaderMap::try_with_capacity(0).unwrap()
    }
}

impl<T> Default for HeaderMap<T> {
    fn default() -> Self {
        HeaderMap::try_with_capacity(0).expect("zero capacity should never fail")
    }
}

impl<T> HeaderMap<T> {
    pub fn with_capacity(capacity: usize) -> HeaderMap<T> {
        Self::try_with_capacity(capacity).expect("size overflows MAX_SIZE")
    }

    pub fn try_with_capacity(capacity: usize) -> Result<HeaderMap<T>, MaxSizeReached> {
        if capacity > MAX_SIZE {
            return Err(MaxSizeReached::new());
        }
        Ok(HeaderMap { groups: Inline::new() })
    }

    pub fn len(&self) -> usize {
        let mut n = 0;
        let mut i = 0;
        while i < self.groups.len() {
            n += self.groups.get(i).count();
            i += 1;
        }
        n
    }

    pub fn keys_len(&self) -> usize {
        self.groups.len()
    }

    pub fn is_empty(&self) -> bool {
        self.groups.is_empty()
    }

    pub fn clear(&mut self) {
        self.groups.clear();
    }

    pub fn capacity(&self) -> usize {
        MAXG
    }

    pub fn reserve(&mut self, additional: usize) {
        self.try_reserve(additional).expect("size overflows MAX_SIZE")
    }

    pub fn try_reserve(&mut self, additional: usize) -> Result<(), MaxSizeReached> {
        match self.groups.len().checked_add(additional) {
            Some(n) if n <= MAX_SIZE => Ok(()),
            _ => Err(MaxSizeReached::new()),
        }
    }

    pub fn get<K>(&self, key: K) -> Option<&T>
    where
        K: AsHeaderName,
    {
        self.get2(&key)
    }

    fn get2<K>(&self, key: &K) -> Option<&T>
    where
        K: AsHeaderName,
    {
        match key.find(self) {
            Some(i) => Some(self.groups.get(i).value(0)),
            None => None,
        }
    }

    pub fn get_mut<K>(&mut self, key: K) -> Option<&mut T>
    where
        K: AsHeaderName,
    {
        match key.find(self) {
            Some(i) => Some(self.groups.get_mut(i).value_mut(0)),
            None => None,
        }
    }

    pub fn get_all<K>(&self, key: K) -> GetAll<'_, T>
    where
        K: AsHeaderName,
    {
        GetAll { map: self, index: key.find(self) }
    }

    pub fn contains_key<K>(&self, key: K) -> bool
    where
        K: AsHeaderName,
    {
        key.find(self).is_some()
    }

    pub fn iter(&self) -> Iter<'_, T> {
        Iter { map: self, g: 0, v: 0 }
    }

    pub fn iter_mut(&mut self) -> IterMut<'_, T> {
        IterMut { map: self as *mut _, g: 0, v: 0, lt: PhantomData }
    }

    pub fn keys(&self) -> Keys<'_, T> {
        Keys { map: self, g: 0 }
    }

    pub fn values(&self) -> Values<'_, T> {
        Values { inner: self.iter() }
    }

    pub fn values_mut(&mut self) -> ValuesMut<'_, T> {
        ValuesMut { inner: self.iter_mut() }
    }

    pub fn drain(&mut self) -> Drain<'_, T> {
        let groups = self.groups.take_all();
        Drain { inner: IntoIter { groups, g: 0, v: 0 }, lt: PhantomData }
    }

    pub fn entry<K>(&mut self, key: K) -> Entry<'_, T>
    where
        K: IntoHeaderName,
    {
        key.try_entry(self).expect("size overflows MAX_SIZE")
    }

    pub fn try_entry<K>(&mut self, key: K) -> Result<Entry<'_, T>, InvalidHeaderName>
    where
        K: AsHeaderName,
    {
        key.try_entry(self).map_err(|err| match err {
            as_header_name::TryEntryError::InvalidHeaderName(e) => e,
            as_header_name::TryEntryError::MaxSizeReached(_e) => {
                // Unfortunately, we cannot change the return type of this
                // method, so the panic is the best we can do.
                panic!("size overflows MAX_SIZE");
            }
        })
    }

    fn find_name(&self, key: &HeaderName) -> Option<usize> {
        let mut i = 0;
        while i < self.groups.len() {
            if self.groups.get(i).key == *key {
                return Some(i);
            }
            i += 1;
        }
        None
    }

    fn try_entry2(&mut self, key: HeaderName) -> Result<Entry<'_, T>, MaxSizeReached> {
        match self.find_name(&key) {
            Some(index) => Ok(Entry::Occupied(OccupiedEntry { map: self, index })),
            None => {
                if self.groups.len() >= MAX_SIZE {
                    return Err(MaxSizeReached::new());
                }
                Ok(Entry::Vacant(VacantEntry { map: self, key }))
            }
        }
    }

    pub fn insert<K>(&mut self, key: K, val: T) -> Option<T>
    where
        K: IntoHeaderName,
    {
        self.try_insert(key, val).expect("size overflows MAX_SIZE")
    }

    pub fn try_insert<K>(&mut self, key: K, val: T) -> Result<Option<T>, MaxSizeReached>
    where
        K: IntoHeaderName,
    {
        key.try_insert(self, val)
    }

    fn try_insert2(&mut self, key: HeaderName, value: T) -> Result<Option<T>, MaxSizeReached> {
        match self.find_name(&key) {
            Some(i) => Ok(Some(self.groups.get_mut(i).replace_all(value))),
            None => {
                self.groups.push(Group::single(key, value));
                Ok(None)
            }
        }
    }

    pub fn append<K>(&mut self, key: K, value: T) -> bool
    where
        K: IntoHeaderName,
    {
        self.try_append(key, value).expect("size overflows MAX_SIZE")
    }

    pub fn try_append<K>(&mut self, key: K, value: T) -> Result<bool, MaxSizeReached>
    where
        K: IntoHeaderName,
    {
        key.try_append(self, value)
    }

    fn try_append2(&mut self, key: HeaderName, value: T) -> Result<bool, MaxSizeReached> {
        match self.find_name(&key) {
            Some(i) => {
                self.groups.get_mut(i).values.push(value);
                Ok(true)
            }
            None => {
                self.groups.push(Group::single(key, value));
                Ok(false)
            }
        }
    }

    pub fn remove<K>(&mut self, key: K) -> Option<T>
    where
        K: AsHeaderName,
    {
        match key.find(self) {
            Some(i) => {
                // like the real map, the last entry moves into the hole
                let mut g = self.groups.swap_remove(i);
                Some(g.values.swap_remove(0))
            }
            None => None,
        }
    }
}

impl<'a, T> IntoIterator for &'a HeaderMap<T> {
    type Item = (&'a HeaderName, &'a T);
    type IntoIter = Iter<'a, T>;

    fn into_iter(self) -> Iter<'a, T> {
        self.iter()
    }
}

impl<'a, T> IntoIterator for &'a mut HeaderMap<T> {
    type Item = (&'a HeaderName, &'a mut T);
    type IntoIter = IterMut<'a, T>;

    fn into_iter(self) -> IterMut<'a, T> {
        self.iter_mut()
    }
}

impl<T> IntoIterator for HeaderMap<T> {
    type Item = (Option<HeaderName>, T);
    type IntoIter = IntoIter<T>;

    fn into_iter(self) -> IntoIter<T> {
        IntoIter { groups: self.groups, g: 0, v: 0 }
    }
}

impl<T> FromIterator<(HeaderName, T)> for HeaderMap<T> {
    fn from_iter<I>(iter: I) -> Self
    where
        I: IntoIterator<Item = (HeaderName, T)>,
    {
        let mut map = HeaderMap::default();
        map.extend(iter);
        map
    }
}

impl<'a, K, V, S, T> TryFrom<&'a HashMap<K, V, S>> for HeaderMap<T>
where
    K: Eq + Hash,
    HeaderName: TryFrom<&'a K>,
    <HeaderName as TryFrom<&'a K>>::Error: Into<crate::Error>,
    T: TryFrom<&'a V>,
    T::Error: Into<crate::Error>,
{
    type Error = Error;

    fn try_from(c: &'a HashMap<K, V, S>) -> Result<Self, Self::Error> {
        c.iter()
            .map(|(k, v)| -> crate::Result<(HeaderName, T)> {
                let name = TryFrom::try_from(k).map_err(Into::into)?;
                let value = TryFrom::try_from(v).map_err(Into::into)?;
                Ok((name, value))
            })
            .collect()
    }
}

impl<T> Extend<(Option<HeaderName>, T)> for HeaderMap<T> {
    fn extend<I: IntoIterator<Item = (Option<HeaderName>, T)>>(&mut self, iter: I) {
        let mut iter = iter.into_iter();

        let (mut key, mut val) = match iter.next() {
            Some((Some(key), val)) => (key, val),
            Some((None, _)) => panic!("expected a header name, but got None"),
            None => return,
        };

        'outer: loop {
            let mut entry = match self.try_entry2(key).expect("size overflows MAX_SIZE") {
                Entry::Occupied(mut e) => {
                    // Replace all previous values while maintaining a handle to the entry.
                    e.insert(val);
                    e
                }
                Entry::Vacant(e) => e.insert_entry(val),
            };

            loop {
                match iter.next() {
                    Some((Some(k), v)) => {
                        key = k;
                        val = v;
                        continue 'outer;
                    }
                    Some((None, v)) => {
                        entry.append(v);
                    }
                    None => {
                        return;
                    }
                }
            }
        }
    }
}

impl<T> Extend<(HeaderName, T)> for HeaderMap<T> {
    fn extend<I: IntoIterator<Item = (HeaderName, T)>>(&mut self, iter: I) {
        for (k, v) in iter {
            self.append(k, v);
        }
    }
}

impl<T: PartialEq> PartialEq for HeaderMap<T> {
    fn eq(&self, other: &HeaderMap<T>) -> bool {
        if self.len() != other.len() {
            return false;
        }

        self.keys().all(|key| self.get_all(key) == other.get_all(key))
    }
}

impl<T: Eq> Eq for HeaderMap<T> {}

impl<T: fmt::Debug> fmt::Debug for HeaderMap<T> {
    fn fmt(&self, f: &mut fmt::Formatter<'_>) -> fmt::Result {
        f.debug_map().entries(self.iter()).finish()
    }
}

impl<K, T> ops::Index<K> for HeaderMap<T>
where
    K: AsHeaderName,
{
    type Output = T;

    #[inline]
    fn index(&self, index: K) -> &T {
        match self.get2(&index) {
            Some(val) => val,
            None => panic!("no entry found for key {:?}", index.as_str()),
        }
    }
}

// ===== impl Iter =====

impl<'a, T> Iterator for Iter<'a, T> {
    type Item = (&'a HeaderName, &'a T);

    fn next(&mut self) -> Option<Self::Item> {
        if self.g >= self.map.groups.len() {
            return None;
        }
        let group = self.map.groups.get(self.g);
        let item = (&group.key, group.value(self.v));
        self.v += 1;
        if self.v >= group.count() {
            self.g += 1;
            self.v = 0;
        }
        Some(item)
    }

    fn size_hint(&self) -> (usize, Option<usize>) {
        let rem = self.map.groups.len().saturating_sub(self.g);
        (rem, None)
    }
}

impl<'a, T> FusedIterator for Iter<'a, T> {}

// ===== impl IterMut =====

impl<'a, T> Iterator for IterMut<'a, T> {
    type Item = (&'a HeaderName, &'a mut T);

    fn next(&mut self) -> Option<Self::Item> {
        // each (group, value) position is handed out exactly once, so the &mut do not alias
        let map: &'a mut HeaderMap<T> = unsafe { &mut *self.map };
        if self.g >= map.groups.len() {
            return None;
        }
        let group: *mut Group<T> = map.groups.get_mut(self.g);
        let (key, val, count) = unsafe { (&(*group).key, (*group).value_mut(self.v), (*group).count()) };
        self.v += 1;
        if self.v >= count {
            self.g += 1;
            self.v = 0;
        }
        Some((key, val))
    }

    fn size_hint(&self) -> (usize, Option<usize>) {
        (0, None)
    }
}

impl<'a, T> FusedIterator for IterMut<'a, T> {}

unsafe impl<'a, T: Sync> Sync for IterMut<'a, T> {}
unsafe impl<'a, T: Send> Send for IterMut<'a, T> {}

// ===== impl Keys =====

impl<'a, T> Iterator for Keys<'a, T> {
    type Item = &'a HeaderName;

    fn next(&mut self) -> Option<Self::Item> {
        if self.g >= self.map.groups.len() {
            return None;
        }
        let k = &self.map.groups.get(self.g).key;
        self.g += 1;
        Some(k)
    }

    fn size_hint(&self) -> (usize, Option<usize>) {
        let rem = self.map.groups.len().saturating_sub(self.g);
        (rem, Some(rem))
    }
}

impl<'a, T> ExactSizeIterator for Keys<'a, T> {}
impl<'a, T> FusedIterator for Keys<'a, T> {}

// ===== impl Values ====

impl<'a, T> Iterator for Values<'a, T> {
    type Item = &'a T;

    fn next(&mut self) -> Option<Self::Item> {
        self.inner.next().map(|(_, v)| v)
    }

    fn size_hint(&self) -> (usize, Option<usize>) {
        self.inner.size_hint()
    }
}

impl<'a, T> FusedIterator for Values<'a, T> {}

// ===== impl ValuesMut ====

impl<'a, T> Iterator for ValuesMut<'a, T> {
    type Item = &'a mut T;

    fn next(&mut self) -> Option<Self::Item> {
        self.inner.next().map(|(_, v)| v)
    }

    fn size_hint(&self) -> (usize, Option<usize>) {
        self.inner.size_hint()
    }
}

impl<'a, T> FusedIterator for ValuesMut<'a, T> {}

// ===== impl Drain =====

impl<'a, T> Iterator for Drain<'a, T> {
    type Item = (Option<HeaderName>, T);

    fn next(&mut self) -> Option<Self::Item> {
        self.inner.next()
    }

    fn size_hint(&self) -> (usize, Option<usize>) {
        self.inner.size_hint()
    }
}

impl<'a, T> FusedIterator for Drain<'a, T> {}

// ===== impl Entry =====

impl<'a, T> Entry<'a, T> {
    pub fn or_insert(self, default: T) -> &'a mut T {
        self.or_try_insert(default).expect("size overflows MAX_SIZE")
    }

    pub fn or_try_insert(self, default: T) -> Result<&'a mut T, MaxSizeReached> {
        use self::Entry::*;

        match self {
            Occupied(e) => Ok(e.into_mut()),
            Vacant(e) => e.try_insert(default),
        }
    }

    pub fn or_insert_with<F: FnOnce() -> T>(self, default: F) -> &'a mut T {
        self.or_try_insert_with(default).expect("size overflows MAX_SIZE")
    }

    pub fn or_try_insert_with<F: FnOnce() -> T>(self, default: F) -> Result<&'a mut T, MaxSizeReached> {
        use self::Entry::*;

        match self {
            Occupied(e) => Ok(e.into_mut()),
            Vacant(e) => e.try_insert(default()),
        }
    }

    pub fn key(&self) -> &HeaderName {
        use self::Entry::*;

        match *self {
            Vacant(ref e) => e.key(),
            Occupied(ref e) => e.key(),
        }
    }
}

// ===== impl VacantEntry =====

impl<'a, T> VacantEntry<'a, T> {
    pub fn key(&self) -> &HeaderName {
        &self.key
    }

    pub fn into_key(self) -> HeaderName {
        self.key
    }

    pub fn insert(self, value: T) -> &'a mut T {
        self.try_insert(value).expect("size overflows MAX_SIZE")
    }

    pub fn try_insert(self, value: T) -> Result<&'a mut T, MaxSizeReached> {
        let e = self.try_insert_entry(value)?;
        Ok(e.into_mut())
    }

    pub fn insert_entry(self, value: T) -> OccupiedEntry<'a, T> {
        self.try_insert_entry(value).expect("size overflows MAX_SIZE")
    }

    pub fn try_insert_entry(self, value: T) -> Result<OccupiedEntry<'a, T>, MaxSizeReached> {
        self.map.groups.push(Group::single(self.key, value));
        let index = self.map.groups.len() - 1;
        Ok(OccupiedEntry { map: self.map, index })
    }
}

// ===== impl GetAll =====

impl<'a, T: 'a> GetAll<'a, T> {
    pub fn iter(&self) -> ValueIter<'a, T> {
        // This creates a new GetAll struct so that the lifetime
        // isn't bound to &self.
        GetAll { map: self.map, index: self.index }.into_iter()
    }
}

impl<'a, T: PartialEq> PartialEq for GetAll<'a, T> {
    fn eq(&self, other: &Self) -> bool {
        self.iter().eq(other.iter())
    }
}

impl<'a, T> IntoIterator for GetAll<'a, T> {
    type Item = &'a T;
    type IntoIter = ValueIter<'a, T>;

    fn into_iter(self) -> ValueIter<'a, T> {
        match self.index {
            Some(i) => {
                let g = self.map.groups.get(i);
                ValueIter { group: Some(g), front: 0, back: g.count() }
            }
            None => ValueIter { group: None, front: 0, back: 0 },
        }
    }
}

impl<'a, 'b: 'a, T> IntoIterator for &'b GetAll<'a, T> {
    type Item = &'a T;
    type IntoIter = ValueIter<'a, T>;

    fn into_iter(self) -> ValueIter<'a, T> {
        self.iter()
    }
}

// ===== impl ValueIter =====

impl<'a, T: 'a> Iterator for ValueIter<'a, T> {
    type Item = &'a T;

    fn next(&mut self) -> Option<Self::Item> {
        let g = self.group?;
        if self.front >= self.back {
            return None;
        }
        let v = g.value(self.front);
        self.front += 1;
        Some(v)
    }

    fn size_hint(&self) -> (usize, Option<usize>) {
        let n = self.back - self.front;
        (n, Some(n))
    }
}

impl<'a, T: 'a> DoubleEndedIterator for ValueIter<'a, T> {
    fn next_back(&mut self) -> Option<Self::Item> {
        let g = self.group?;
        if self.front >= self.back {
            return None;
        }
        self.back -= 1;
        Some(g.value(self.back))
    }
}

impl<'a, T> FusedIterator for ValueIter<'a, T> {}

// ===== impl ValueIterMut =====

impl<'a, T: 'a> Iterator for ValueIterMut<'a, T> {
    type Item = &'a mut T;

    fn next(&mut self) -> Option<Self::Item> {
        if self.front >= self.back {
            return None;
        }
        // each index is handed out at most once
        let v: &'a mut T = unsafe { (*self.group).value_mut(self.front) };
        self.front += 1;
        Some(v)
    }
}

impl<'a, T: 'a> DoubleEndedIterator for ValueIterMut<'a, T> {
    fn next_back(&mut self) -> Option<Self::Item> {
        if self.front >= self.back {
            return None;
        }
        self.back -= 1;
        let v: &'a mut T = unsafe { (*self.group).value_mut(self.back) };
        Some(v)
    }
}

impl<'a, T> FusedIterator for ValueIterMut<'a, T> {}

unsafe impl<'a, T: Sync> Sync for ValueIterMut<'a, T> {}
unsafe impl<'a, T: Send> Send for ValueIterMut<'a, T> {}

// ===== impl IntoIter =====

impl<T> Iterator for IntoIter<T> {
    type Item = (Option<HeaderName>, T);

    fn next(&mut self) -> Option<Self::Item> {
        if self.g >= self.groups.len() {
            return None;
        }
        let group = self.groups.items[self.g].as_mut().unwrap();
        let count = group.values.len();
        let val = group.values.take_at(self.v).unwrap();
        let name = if self.v == 0 { Some(group.key.clone()) } else { None };
        self.v += 1;
        if self.v >= count {
            self.g += 1;
            self.v = 0;
        }
        Some((name, val))
    }

    fn size_hint(&self) -> (usize, Option<usize>) {
        (self.groups.len().saturating_sub(self.g), None)
    }
}

impl<T> FusedIterator for IntoIter<T> {}

// ===== impl OccupiedEntry =====

impl<'a, T> OccupiedEntry<'a, T> {
    pub fn key(&self) -> &HeaderName {
        &self.map.groups.get(self.index).key
    }

    pub fn get(&self) -> &T {
        self.map.groups.get(self.index).value(0)
    }

    pub fn get_mut(&mut self) -> &mut T {
        self.map.groups.get_mut(self.index).value_mut(0)
    }

    pub fn into_mut(self) -> &'a mut T {
        self.map.groups.get_mut(self.index).value_mut(0)
    }

    pub fn insert(&mut self, value: T) -> T {
        self.map.groups.get_mut(self.index).replace_all(value)
    }

    pub fn insert_mult(&mut self, value: T) -> ValueDrain<'_, T> {
        let g = self.map.groups.get_mut(self.index);
        let old = g.values.take_all();
        g.values.push(value);
        let count = old.len();
        ValueDrain { items: old, pos: 0, count, lt: PhantomData }
    }

    pub fn append(&mut self, value: T) {
        self.map.groups.get_mut(self.index).values.push(value);
    }

    pub fn remove(self) -> T {
        self.remove_entry().1
    }

    pub fn remove_entry(self) -> (HeaderName, T) {
        let mut g = self.map.groups.swap_remove(self.index);
        let first = g.values.swap_remove(0);
        (g.key, first)
    }

    pub fn remove_entry_mult(self) -> (HeaderName, ValueDrain<'a, T>) {
        let g = self.map.groups.swap_remove(self.index);
        let count = g.values.len();
        (g.key, ValueDrain { items: g.values, pos: 0, count, lt: PhantomData })
    }

    pub fn iter(&self) -> ValueIter<'_, T> {
        let g = self.map.groups.get(self.index);
        ValueIter { group: Some(g), front: 0, back: g.count() }
    }

    pub fn iter_mut(&mut self) -> ValueIterMut<'_, T> {
        let g: &mut Group<T> = self.map.groups.get_mut(self.index);
        let back = g.count();
        ValueIterMut { group: g as *mut _, front: 0, back, lt: PhantomData }
    }
}

impl<'a, T> IntoIterator for OccupiedEntry<'a, T> {
    type Item = &'a mut T;
    type IntoIter = ValueIterMut<'a, T>;

    fn into_iter(self) -> ValueIterMut<'a, T> {
        let g: &mut Group<T> = self.map.groups.get_mut(self.index);
        let back = g.count();
        ValueIterMut { group: g as *mut _, front: 0, back, lt: PhantomData }
    }
}

impl<'a, 'b: 'a, T> IntoIterator for &'b OccupiedEntry<'a, T> {
    type Item = &'a T;
    type IntoIter = ValueIter<'a, T>;

    fn into_iter(self) -> ValueIter<'a, T> {
        self.iter()
    }
}

impl<'a, 'b: 'a, T> IntoIterator for &'b mut OccupiedEntry<'a, T> {
    type Item = &'a mut T;
    type IntoIter = ValueIterMut<'a, T>;

    fn into_iter(self) -> ValueIterMut<'a, T> {
        self.iter_mut()
    }
}

// ===== impl ValueDrain =====

impl<'a, T> Iterator for ValueDrain<'a, T> {
    type Item = T;

    fn next(&mut self) -> Option<T> {
        if self.pos >= self.count {
            return None;
        }
        let v = self.items.take_at(self.pos);
        self.pos += 1;
        v
    }

    fn size_hint(&self) -> (usize, Option<usize>) {
        let n = self.count - self.pos;
        (n, Some(n))
    }
}

impl<'a, T> FusedIterator for ValueDrain<'a, T> {}

// ===== impl MaxSizeReached =====

impl MaxSizeReached {
    fn new() -> Self {
        MaxSizeReached { _priv: () }
    }
}

impl fmt::Debug for MaxSizeReached {
    fn fmt(&self, f: &mut fmt::Formatter) -> fmt::Result {
        f.debug_struct("MaxSizeReached")
            // skip _priv noise
            .finish()
    }
}

impl fmt::Display for MaxSizeReached {
    fn fmt(&self, f: &mut fmt::Formatter<'_>) -> fmt::Result {
        f.write_str("max size reached")
    }
}

impl std::error::Error for MaxSizeReached {}

/*
 *
 * ===== impl IntoHeaderName / AsHeaderName =====
 *
 */

mod into_header_name {
    use super::{Entry, HeaderMap, HeaderName, MaxSizeReached};

    /// A marker trait used to identify values that can be used as insert keys
    /// to a `HeaderMap`.
    pub trait IntoHeaderName: Sealed {}

    pub trait Sealed {
        #[doc(hidden)]
        fn try_insert<T>(self, map: &mut HeaderMap<T>, val: T) -> Result<Option<T>, MaxSizeReached>;

        #[doc(hidden)]
        fn try_append<T>(self, map: &mut HeaderMap<T>, val: T) -> Result<bool, MaxSizeReached>;

        #[doc(hidden)]
        fn try_entry<T>(self, map: &mut HeaderMap<T>) -> Result<Entry<'_, T>, MaxSizeReached>;
    }

    // ==== impls ====

    impl Sealed for HeaderName {
        #[inline]
        fn try_insert<T>(self, map: &mut HeaderMap<T>, val: T) -> Result<Option<T>, MaxSizeReached> {
            map.try_insert2(self, val)
        }

        #[inline]
        fn try_append<T>(self, map: &mut HeaderMap<T>, val: T) -> Result<bool, MaxSizeReached> {
            map.try_append2(self, val)
        }

        #[inline]
        fn try_entry<T>(self, map: &mut HeaderMap<T>) -> Result<Entry<'_, T>, MaxSizeReached> {
            map.try_entry2(self)
        }
    }

    impl IntoHeaderName for HeaderName {}

    impl Sealed for &HeaderName {
        #[inline]
        fn try_insert<T>(self, map: &mut HeaderMap<T>, val: T) -> Result<Option<T>, MaxSizeReached> {
            map.try_insert2(self.clone(), val)
        }
        #[inline]
        fn try_append<T>(self, map: &mut HeaderMap<T>, val: T) -> Result<bool, MaxSizeReached> {
            map.try_append2(self.clone(), val)
        }

        #[inline]
        fn try_entry<T>(self, map: &mut HeaderMap<T>) -> Result<Entry<'_, T>, MaxSizeReached> {
            map.try_entry2(self.clone())
        }
    }

    impl IntoHeaderName for &HeaderName {}

    impl Sealed for &'static str {
        #[inline]
        fn try_insert<T>(self, map: &mut HeaderMap<T>, val: T) -> Result<Option<T>, MaxSizeReached> {
            map.try_insert2(HeaderName::from_static(self), val)
        }
        #[inline]
        fn try_append<T>(self, map: &mut HeaderMap<T>, val: T) -> Result<bool, MaxSizeReached> {
            map.try_append2(HeaderName::from_static(self), val)
        }

        #[inline]
        fn try_entry<T>(self, map: &mut HeaderMap<T>) -> Result<Entry<'_, T>, MaxSizeReached> {
            map.try_entry2(HeaderName::from_static(self))
        }
    }

    impl IntoHeaderName for &'static str {}
}

mod as_header_name {
    use super::{Entry, HeaderMap, HeaderName, InvalidHeaderName, MaxSizeReached};

    /// A marker trait used to identify values that can be used as search keys
    /// to a `HeaderMap`.
    pub trait AsHeaderName: Sealed {}

    // Debug not currently needed, save on compiling it
    #[allow(missing_debug_implementations)]
    pub enum TryEntryError {
        InvalidHeaderName(InvalidHeaderName),
        MaxSizeReached(MaxSizeReached),
    }

    impl From<InvalidHeaderName> for TryEntryError {
        fn from(e: InvalidHeaderName) -> TryEntryError {
            TryEntryError::InvalidHeaderName(e)
        }
    }

    impl From<MaxSizeReached> for TryEntryError {
        fn from(e: MaxSizeReached) -> TryEntryError {
            TryEntryError::MaxSizeReached(e)
        }
    }

    pub trait Sealed {
        #[doc(hidden)]
        fn try_entry<T>(self, map: &mut HeaderMap<T>) -> Result<Entry<'_, T>, TryEntryError>;

        /// index of the group with this name
        #[doc(hidden)]
        fn find<T>(&self, map: &HeaderMap<T>) -> Option<usize>;

        #[doc(hidden)]
        fn as_str(&self) -> &str;
    }

    // ==== impls ====

    impl Sealed for HeaderName {
        #[inline]
        fn try_entry<T>(self, map: &mut HeaderMap<T>) -> Result<Entry<'_, T>, TryEntryError> {
            Ok(map.try_entry2(self)?)
        }

        #[inline]
        fn find<T>(&self, map: &HeaderMap<T>) -> Option<usize> {
            map.find_name(self)
        }

        fn as_str(&self) -> &str {
            <HeaderName>::as_str(self)
        }
    }

    impl AsHeaderName for HeaderName {}

    impl Sealed for &HeaderName {
        #[inline]
        fn try_entry<T>(self, map: &mut HeaderMap<T>) -> Result<Entry<'_, T>, TryEntryError> {
            Ok(map.try_entry2(self.clone())?)
        }

        #[inline]
        fn find<T>(&self, map: &HeaderMap<T>) -> Option<usize> {
            map.find_name(*self)
        }

        fn as_str(&self) -> &str {
            <HeaderName>::as_str(self)
        }
    }

    impl AsHeaderName for &HeaderName {}

    impl Sealed for &str {
        #[inline]
        fn try_entry<T>(self, map: &mut HeaderMap<T>) -> Result<Entry<'_, T>, TryEntryError> {
            let name = HeaderName::from_bytes(self.as_bytes())?;
            Ok(map.try_entry2(name)?)
        }

        #[inline]
        fn find<T>(&self, map: &HeaderMap<T>) -> Option<usize> {
            match HeaderName::from_bytes(self.as_bytes()) {
                Ok(name) => map.find_name(&name),
                Err(_) => None,
            }
        }

        fn as_str(&self) -> &str {
            self
        }
    }

    impl AsHeaderName for &str {}

    impl Sealed for String {
        #[inline]
        fn try_entry<T>(self, map: &mut HeaderMap<T>) -> Result<Entry<'_, T>, TryEntryError> {
            self.as_str().try_entry(map)
        }

        #[inline]
        fn find<T>(&self, map: &HeaderMap<T>) -> Option<usize> {
            Sealed::find(&self.as_str(), map)
        }

        fn as_str(&self) -> &str {
            self
        }
    }

    impl AsHeaderName for String {}

    impl Sealed for &String {
        #[inline]
        fn try_entry<T>(self, map: &mut HeaderMap<T>) -> Result<Entry<'_, T>, TryEntryError> {
            self.as_str().try_entry(map)
        }

        #[inline]
        fn find<T>(&self, map: &HeaderMap<T>) -> Option<usize> {
            Sealed::find(&self.as_str(), map)
        }

        fn as_str(&self) -> &str {
            self
        }
    }

    impl AsHeaderName for &String {}
}
