//! Test using `Bytes` with an allocator that hands out "odd" pointers for
//! vectors (pointers where the LSB is set).

#![cfg(not(miri))] // Miri does not support custom allocators (also, Miri is "odd" by default with 50% chance)

use std::alloc::{GlobalAlloc, Layout, System};
use std::ptr;

use bytes::{Bytes, BytesMut};

#[global_allocator]
static ODD: Odd = Odd;

struct Odd;

unsafe impl GlobalAlloc for Odd {
    unsafe fn alloc(&self, layout: Layout) -> *mut u8 {
        if layout.align() == 1 && layout.size() > 0 {
            // Allocate slightly bigger so that we can offset the pointer by 1
            let size = layout.size() + 1;
            let new_layout = match Layout::from_size_align(size, 1) {
                Ok(layout) => layout,
                Err(_err) => return ptr::null_mut(),
            };
            let ptr = System.alloc(new_layout);
            if !ptr.is_null() {
                ptr.offset(1)
            } else {
                ptr
            }
        } else {
            System.alloc(layout)
        }
    }

    unsafe fn dealloc(&self, ptr: *mut u8, layout: Layout) {
        if layout.align() == 1 && layout.size() > 0 {
            let size = layout.size() + 1;
            let new_layout = match Layout::from_size_align(size, 1) {
                Ok(layout) => layout,
                Err(_err) => std::process::abort(),
            };
            System.dealloc(ptr.offset(-1), new_layout);
        } else {
            System.dealloc(ptr, layout);
        }
    }
}

#[test]
fn sanity_check_odd_allocator() {
    let vec = vec![33u8; 1024];
    let p = vec.as_ptr() as usize;
    assert!(p & 0x1 == 0x1, "{:#b}", p);
}

#[test]
fn test_bytes_from_vec_drop() {
    let vec = vec![33u8; 1024];
    let _b = Bytes::from(vec);
}

#[test]
fn test_bytes_clone_drop() {
    let vec = vec![33u8; 1024];
    let b1 = Bytes::from(vec);
    let _b2 = b1.clone();
}

#[test]
fn test_bytes_into_vec() {
    let vec = vec![33u8; 1024];

    // Test cases where kind == KIND_VEC
    let b1 = Bytes::from(vec.clone());
    assert_eq!(Vec::from(b1), vec);

    // Test cases where kind == KIND_ARC, ref_cnt == 1
    let b1 = Bytes::from(vec.clone());
    drop(b1.clone());
    assert_eq!(Vec::from(b1), vec);

    // Test cases where kind == KIND_ARC, ref_cnt == 2
    let b1 = Bytes::from(vec.clone());
    let b2 = b1.clone();
    assert_eq!(Vec::from(b1), vec);

    // Test cases where vtable = SHARED_VTABLE, kind == KIND_ARC, ref_cnt == 1
    assert_eq!(Vec::from(b2), vec);

    // Test cases where offset != 0
    let mut b1 = Bytes::from(vec.clone());
    let b2 = b1.split_off(20);

    assert_eq!(Vec::from(b2), vec[20..]);
    assert_eq!(Vec::from(b1), vec[..20]);
}

#[test]
fn test_bytesmut_from_bytes_vec() {
    let vec = vec![33u8; 1024];

    // Test case where kind == KIND_VEC
    let b1 = Bytes::from(vec.clone());
    let b1m = BytesMut::from(b1);
    assert_eq!(b1m, vec);
}

#[test]
fn test_bytesmut_from_bytes_arc_1() {
    let vec = vec![33u8; 1024];

    // Test case where kind == KIND_ARC, ref_cnt == 1
    let b1 = Bytes::from(vec.clone());
    drop(b1.clone());
    let b1m = BytesMut::from(b1);
    assert_eq!(b1m, vec);
}

#[test]
fn test_bytesmut_from_bytes_arc_2() {
    let vec = vec![33u8; 1024];

    // Test case where kind == KIND_ARC, ref_cnt == 2
    let b1 = Bytes::from(vec.clone());
    let b2 = b1.clone();
    let b1m = BytesMut::from(b1);
    assert_eq!(b1m, vec);

    // Test case where vtable = SHARED_VTABLE, kind == KIND_ARC, ref_cnt == 1
    let b2m = BytesMut::from(b2);
    assert_eq!(b2m, vec);
}

#[test]
fn test_bytesmut_from_bytes_arc_offset() {
    let vec = vec![33u8; 1024];

    // Test case where offset != 0
    let mut b1 = Bytes::from(vec.clone());
    let b2 = b1.split_off(20);
    let b1m = BytesMut::from(b1);
    let b2m = BytesMut::from(b2);

    assert_eq!(b2m, vec[20..]);
    assert_eq!(b1m, vec[..20]);
}
