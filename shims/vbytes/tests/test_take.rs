#![warn(rust_2018_idioms)]

use bytes::buf::Buf;
use bytes::Bytes;

#[test]
fn long_take() {
    // Tests that get a take with a size greater than the buffer length will not
    // overrun the buffer. Regression test for #138.
    let buf = b"hello world".take(100);
    assert_eq!(11, buf.remaining());
    assert_eq!(b"hello world", buf.chunk());
}

#[test]
fn take_copy_to_bytes() {
    let mut abcd = Bytes::copy_from_slice(b"abcd");
    let abcd_ptr = abcd.as_ptr();
    let mut take = (&mut abcd).take(2);
    let a = take.copy_to_bytes(1);
    assert_eq!(Bytes::copy_from_slice(b"a"), a);
    // assert `to_bytes` did not allocate
    assert_eq!(abcd_ptr, a.as_ptr());
    assert_eq!(Bytes::copy_from_slice(b"bcd"), abcd);
}

#[test]
#[should_panic]
fn take_copy_to_bytes_panics() {
    let abcd = Bytes::copy_from_slice(b"abcd");
    abcd.take(2).copy_to_bytes(3);
}

#[cfg(feature = "std")]
#[test]
fn take_chunks_vectored() {
    fn chain() -> impl Buf {
        Bytes::from([1, 2, 3].to_vec()).chain(Bytes::from([4, 5, 6].to_vec()))
    }

    {
        let mut dst = [std::io::IoSlice::new(&[]); 2];
        let take = chain().take(0);
        assert_eq!(take.chunks_vectored(&mut dst), 0);
    }

    {
        let mut dst = [std::io::IoSlice::new(&[]); 2];
        let take = chain().take(1);
        assert_eq!(take.chunks_vectored(&mut dst), 1);
        assert_eq!(&*dst[0], &[1]);
    }

    {
        let mut dst = [std::io::IoSlice::new(&[]); 2];
        let take = chain().take(3);
        assert_eq!(take.chunks_vectored(&mut dst), 1);
        assert_eq!(&*dst[0], &[1, 2, 3]);
    }

    {
        let mut dst = [std::io::IoSlice::new(&[]); 2];
        let take = chain().take(4);
        assert_eq!(take.chunks_vectored(&mut dst), 2);
        assert_eq!(&*dst[0], &[1, 2, 3]);
        assert_eq!(&*dst[1], &[4]);
    }

    {
        let mut dst = [std::io::IoSlice::new(&[]); 2];
        let take = chain().take(6);
        assert_eq!(take.chunks_vectored(&mut dst), 2);
        assert_eq!(&*dst[0], &[1, 2, 3]);
        assert_eq!(&*dst[1], &[4, 5, 6]);
    }

    {
        let mut dst = [std::io::IoSlice::new(&[]); 2];
        let take = chain().take(7);
        assert_eq!(take.chunks_vectored(&mut dst), 2);
        assert_eq!(&*dst[0], &[1, 2, 3]);
        assert_eq!(&*dst[1], &[4, 5, 6]);
    }
}
