#![warn(rust_2018_idioms)]
#![cfg(feature = "std")]

use std::io::{BufRead, Read};

use bytes::Buf;

#[test]
fn read() {
    let buf1 = &b"hello "[..];
    let buf2 = &b"world"[..];
    let buf = Buf::chain(buf1, buf2); // Disambiguate with Read::chain
    let mut buffer = Vec::new();
    buf.reader().read_to_end(&mut buffer).unwrap();
    assert_eq!(b"hello world", &buffer[..]);
}

#[test]
fn buf_read() {
    let buf1 = &b"hell"[..];
    let buf2 = &b"o\nworld"[..];
    let mut reader = Buf::chain(buf1, buf2).reader();
    let mut line = String::new();
    reader.read_line(&mut line).unwrap();
    assert_eq!("hello\n", &line);
    line.clear();
    reader.read_line(&mut line).unwrap();
    assert_eq!("world", &line);
}

#[test]
fn get_mut() {
    let buf = &b"hello world"[..];
    let mut reader = buf.reader();
    let buf_mut = reader.get_mut();
    assert_eq!(11, buf_mut.remaining());
    assert_eq!(b"hello world", buf_mut);
}
