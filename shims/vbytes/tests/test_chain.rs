#![warn(rust_2018_idioms)]

use bytes::{Buf, BufMut, Bytes};
#[cfg(feature = "std")]
use std::io::IoSlice;

#[test]
fn collect_two_bufs() {
    let a = Bytes::from(&b"hello"[..]);
    let b = Bytes::from(&b"world"[..]);

    let res = a.chain(b).copy_to_bytes(10);
    assert_eq!(res, &b"helloworld"[..]);
}

#[test]
fn writing_chained() {
    let mut a = [0u8; 64];
    let mut b = [0u8; 64];

    {
        let mut buf = (&mut a[..]).chain_mut(&mut b[..]);

        for i in 0u8..128 {
            buf.put_u8(i);
        }
    }

    for i in 0..64 {
        let expect = i as u8;
        assert_eq!(expect, a[i]);
        assert_eq!(expect + 64, b[i]);
    }
}

#[test]
fn iterating_two_bufs() {
    let a = Bytes::from(&b"hello"[..]);
    let b = Bytes::from(&b"world"[..]);

    let res: Vec<u8> = a.chain(b).into_iter().collect();
    assert_eq!(res, &b"helloworld"[..]);
}

#[cfg(feature = "std")]
#[test]
fn vectored_read() {
    let a = Bytes::from(&b"hello"[..]);
    let b = Bytes::from(&b"world"[..]);

    let mut buf = a.chain(b);

    {
        let b1: &[u8] = &mut [];
        let b2: &[u8] = &mut [];
        let b3: &[u8] = &mut [];
        let b4: &[u8] = &mut [];
        let mut iovecs = [
            IoSlice::new(b1),
            IoSlice::new(b2),
            IoSlice::new(b3),
            IoSlice::new(b4),
        ];

        assert_eq!(2, buf.chunks_vectored(&mut iovecs));
        assert_eq!(iovecs[0][..], b"hello"[..]);
        assert_eq!(iovecs[1][..], b"world"[..]);
        assert_eq!(iovecs[2][..], b""[..]);
        assert_eq!(iovecs[3][..], b""[..]);
    }

    buf.advance(2);

    {
        let b1: &[u8] = &mut [];
        let b2: &[u8] = &mut [];
        let b3: &[u8] = &mut [];
        let b4: &[u8] = &mut [];
        let mut iovecs = [
            IoSlice::new(b1),
            IoSlice::new(b2),
            IoSlice::new(b3),
            IoSlice::new(b4),
        ];

        assert_eq!(2, buf.chunks_vectored(&mut iovecs));
        assert_eq!(iovecs[0][..], b"llo"[..]);
        assert_eq!(iovecs[1][..], b"world"[..]);
        assert_eq!(iovecs[2][..], b""[..]);
        assert_eq!(iovecs[3][..], b""[..]);
    }

    buf.advance(3);

    {
        let b1: &[u8] = &mut [];
        let b2: &[u8] = &mut [];
        let b3: &[u8] = &mut [];
        let b4: &[u8] = &mut [];
        let mut iovecs = [
            IoSlice::new(b1),
            IoSlice::new(b2),
            IoSlice::new(b3),
            IoSlice::new(b4),
        ];

        assert_eq!(1, buf.chunks_vectored(&mut iovecs));
        assert_eq!(iovecs[0][..], b"world"[..]);
        assert_eq!(iovecs[1][..], b""[..]);
        assert_eq!(iovecs[2][..], b""[..]);
        assert_eq!(iovecs[3][..], b""[..]);
    }

    buf.advance(3);

    {
        let b1: &[u8] = &mut [];
        let b2: &[u8] = &mut [];
        let b3: &[u8] = &mut [];
        let b4: &[u8] = &mut [];
        let mut iovecs = [
            IoSlice::new(b1),
            IoSlice::new(b2),
            IoSlice::new(b3),
            IoSlice::new(b4),
        ];

        assert_eq!(1, buf.chunks_vectored(&mut iovecs));
        assert_eq!(iovecs[0][..], b"ld"[..]);
        assert_eq!(iovecs[1][..], b""[..]);
        assert_eq!(iovecs[2][..], b""[..]);
        assert_eq!(iovecs[3][..], b""[..]);
    }
}

#[test]
fn chain_growing_buffer() {
    let mut buff = [b' '; 10];
    let mut vec = b"wassup".to_vec();

    let mut chained = (&mut buff[..]).chain_mut(&mut vec).chain_mut(Vec::new()); // Required for potential overflow because remaining_mut for Vec is isize::MAX - vec.len(), but for chain_mut is usize::MAX

    chained.put_slice(b"hey there123123");

    assert_eq!(&buff, b"hey there1");
    assert_eq!(&vec, b"wassup23123");
}

#[test]
fn chain_overflow_remaining_mut() {
    let mut chained = Vec::<u8>::new().chain_mut(Vec::new()).chain_mut(Vec::new());

    assert_eq!(chained.remaining_mut(), usize::MAX);
    chained.put_slice(&[0; 256]);
    assert_eq!(chained.remaining_mut(), usize::MAX);
}

#[test]
fn chain_get_bytes() {
    let mut ab = Bytes::copy_from_slice(b"ab");
    let mut cd = Bytes::copy_from_slice(b"cd");
    let ab_ptr = ab.as_ptr();
    let cd_ptr = cd.as_ptr();
    let mut chain = (&mut ab).chain(&mut cd);
    let a = chain.copy_to_bytes(1);
    let bc = chain.copy_to_bytes(2);
    let d = chain.copy_to_bytes(1);

    assert_eq!(Bytes::copy_from_slice(b"a"), a);
    assert_eq!(Bytes::copy_from_slice(b"bc"), bc);
    assert_eq!(Bytes::copy_from_slice(b"d"), d);

    // assert `get_bytes` did not allocate
    assert_eq!(ab_ptr, a.as_ptr());
    // assert `get_bytes` did not allocate
    assert_eq!(cd_ptr.wrapping_offset(1), d.as_ptr());
}
