#![warn(rust_2018_idioms)]

use bytes::{buf::IntoIter, Bytes};

#[test]
fn iter_len() {
    let buf = Bytes::from_static(b"hello world");
    let iter = IntoIter::new(buf);

    assert_eq!(iter.size_hint(), (11, Some(11)));
    assert_eq!(iter.len(), 11);
}

#[test]
fn empty_iter_len() {
    let buf = Bytes::new();
    let iter = IntoIter::new(buf);

    assert_eq!(iter.size_hint(), (0, Some(0)));
    assert_eq!(iter.len(), 0);
}
