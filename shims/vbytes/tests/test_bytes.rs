#![warn(rust_2018_idioms)]

use bytes::{Buf, BufMut, Bytes, BytesMut};
use std::sync::atomic::{AtomicUsize, Ordering};
use std::sync::Arc;

use std::panic::{self, AssertUnwindSafe};

const LONG: &[u8] = b"mary had a little lamb, little lamb, little lamb";
const SHORT: &[u8] = b"hello world";

fn is_sync<T: Sync>() {}
fn is_send<T: Send>() {}

#[test]
fn test_bounds() {
    is_sync::<Bytes>();
    is_sync::<BytesMut>();
    is_send::<Bytes>();
    is_send::<BytesMut>();
}

#[test]
fn test_layout() {
    use std::mem;

    assert_eq!(
        mem::size_of::<Bytes>(),
        mem::size_of::<usize>() * 4,
        "Bytes size should be 4 words",
    );
    assert_eq!(
        mem::size_of::<BytesMut>(),
        mem::size_of::<usize>() * 4,
        "BytesMut should be 4 words",
    );

    assert_eq!(
        mem::size_of::<Bytes>(),
        mem::size_of::<Option<Bytes>>(),
        "Bytes should be same size as Option<Bytes>",
    );

    assert_eq!(
        mem::size_of::<BytesMut>(),
        mem::size_of::<Option<BytesMut>>(),
        "BytesMut should be same size as Option<BytesMut>",
    );
}

#[test]
fn from_slice() {
    let a = Bytes::from(&b"abcdefgh"[..]);
    assert_eq!(a, b"abcdefgh"[..]);
    assert_eq!(a, &b"abcdefgh"[..]);
    assert_eq!(a, Vec::from(&b"abcdefgh"[..]));
    assert_eq!(b"abcdefgh"[..], a);
    assert_eq!(&b"abcdefgh"[..], a);
    assert_eq!(Vec::from(&b"abcdefgh"[..]), a);

    let a = BytesMut::from(&b"abcdefgh"[..]);
    assert_eq!(a, b"abcdefgh"[..]);
    assert_eq!(a, &b"abcdefgh"[..]);
    assert_eq!(a, Vec::from(&b"abcdefgh"[..]));
    assert_eq!(b"abcdefgh"[..], a);
    assert_eq!(&b"abcdefgh"[..], a);
    assert_eq!(Vec::from(&b"abcdefgh"[..]), a);
}

#[test]
fn fmt() {
    let a = format!("{:?}", Bytes::from(&b"abcdefg"[..]));
    let b = "b\"abcdefg\"";

    assert_eq!(a, b);

    let a = format!("{:?}", BytesMut::from(&b"abcdefg"[..]));
    assert_eq!(a, b);
}

#[test]
fn fmt_write() {
    use std::fmt::Write;
    let s = String::from_iter((0..10).map(|_| "abcdefg"));

    let mut a = BytesMut::with_capacity(64);
    write!(a, "{}", &s[..64]).unwrap();
    assert_eq!(a, s[..64].as_bytes());

    let mut b = BytesMut::with_capacity(64);
    write!(b, "{}", &s[..32]).unwrap();
    write!(b, "{}", &s[32..64]).unwrap();
    assert_eq!(b, s[..64].as_bytes());

    let mut c = BytesMut::with_capacity(64);
    write!(c, "{}", s).unwrap();
    assert_eq!(c, s[..].as_bytes());
}

#[test]
fn len() {
    let a = Bytes::from(&b"abcdefg"[..]);
    assert_eq!(a.len(), 7);

    let a = BytesMut::from(&b"abcdefg"[..]);
    assert_eq!(a.len(), 7);

    let a = Bytes::from(&b""[..]);
    assert!(a.is_empty());

    let a = BytesMut::from(&b""[..]);
    assert!(a.is_empty());
}

#[test]
fn index() {
    let a = Bytes::from(&b"hello world"[..]);
    assert_eq!(a[0..5], *b"hello");
}

#[test]
fn slice() {
    let a = Bytes::from(&b"hello world"[..]);

    let b = a.slice(3..5);
    assert_eq!(b, b"lo"[..]);

    let b = a.slice(0..0);
    assert_eq!(b, b""[..]);

    let b = a.slice(3..3);
    assert_eq!(b, b""[..]);

    let b = a.slice(a.len()..a.len());
    assert_eq!(b, b""[..]);

    let b = a.slice(..5);
    assert_eq!(b, b"hello"[..]);

    let b = a.slice(3..);
    assert_eq!(b, b"lo world"[..]);
}

#[test]
#[should_panic]
fn slice_oob_1() {
    let a = Bytes::from(&b"hello world"[..]);
    a.slice(5..44);
}

#[test]
#[should_panic]
fn slice_oob_2() {
    let a = Bytes::from(&b"hello world"[..]);
    a.slice(44..49);
}

#[test]
#[should_panic]
fn slice_start_greater_than_end() {
    let a = Bytes::from(&b"hello world"[..]);
    a.slice(5..3);
}

#[test]
fn split_off() {
    let mut hello = Bytes::from(&b"helloworld"[..]);
    let world = hello.split_off(5);

    assert_eq!(hello, &b"hello"[..]);
    assert_eq!(world, &b"world"[..]);

    let mut hello = BytesMut::from(&b"helloworld"[..]);
    let world = hello.split_off(5);

    assert_eq!(hello, &b"hello"[..]);
    assert_eq!(world, &b"world"[..]);
}

#[test]
#[should_panic]
fn split_off_oob() {
    let mut hello = Bytes::from(&b"helloworld"[..]);
    let _ = hello.split_off(44);
}

#[test]
#[should_panic = "split_off out of bounds"]
fn bytes_mut_split_off_oob() {
    let mut hello = BytesMut::from(&b"helloworld"[..]);
    let _ = hello.split_off(44);
}

#[test]
fn split_off_uninitialized() {
    let mut bytes = BytesMut::with_capacity(1024);
    let other = bytes.split_off(128);

    assert_eq!(bytes.len(), 0);
    assert_eq!(bytes.capacity(), 128);

    assert_eq!(other.len(), 0);
    assert_eq!(other.capacity(), 896);
}

#[test]
fn split_off_to_loop() {
    let s = b"abcdefghijklmnopqrstuvwxyzABCDEFGHIJKLMNOPQRSTUVWXYZ";

    for i in 0..(s.len() + 1) {
        {
            let mut bytes = Bytes::from(&s[..]);
            let off = bytes.split_off(i);
            assert_eq!(i, bytes.len());
            let mut sum = Vec::new();
            sum.extend(bytes.iter());
            sum.extend(off.iter());
            assert_eq!(&s[..], &sum[..]);
        }
        {
            let mut bytes = BytesMut::from(&s[..]);
            let off = bytes.split_off(i);
            assert_eq!(i, bytes.len());
            let mut sum = Vec::new();
            sum.extend(&bytes);
            sum.extend(&off);
            assert_eq!(&s[..], &sum[..]);
        }
        {
            let mut bytes = Bytes::from(&s[..]);
            let off = bytes.split_to(i);
            assert_eq!(i, off.len());
            let mut sum = Vec::new();
            sum.extend(off.iter());
            sum.extend(bytes.iter());
            assert_eq!(&s[..], &sum[..]);
        }
        {
            let mut bytes = BytesMut::from(&s[..]);
            let off = bytes.split_to(i);
            assert_eq!(i, off.len());
            let mut sum = Vec::new();
            sum.extend(&off);
            sum.extend(&bytes);
            assert_eq!(&s[..], &sum[..]);
        }
    }
}

#[test]
fn split_to_1() {
    // Static
    let mut a = Bytes::from_static(SHORT);
    let b = a.split_to(4);

    assert_eq!(SHORT[4..], a);
    assert_eq!(SHORT[..4], b);

    // Allocated
    let mut a = Bytes::copy_from_slice(LONG);
    let b = a.split_to(4);

    assert_eq!(LONG[4..], a);
    assert_eq!(LONG[..4], b);

    let mut a = Bytes::copy_from_slice(LONG);
    let b = a.split_to(30);

    assert_eq!(LONG[30..], a);
    assert_eq!(LONG[..30], b);
}

#[test]
fn split_to_2() {
    let mut a = Bytes::from(LONG);
    assert_eq!(LONG, a);

    let b = a.split_to(1);

    assert_eq!(LONG[1..], a);
    drop(b);
}

#[test]
#[should_panic]
fn split_to_oob() {
    let mut hello = Bytes::from(&b"helloworld"[..]);
    let _ = hello.split_to(33);
}

#[test]
#[should_panic]
fn split_to_oob_mut() {
    let mut hello = BytesMut::from(&b"helloworld"[..]);
    let _ = hello.split_to(33);
}

#[test]
#[should_panic]
fn split_to_uninitialized() {
    let mut bytes = BytesMut::with_capacity(1024);
    let _other = bytes.split_to(128);
}

#[test]
#[cfg_attr(not(panic = "unwind"), ignore)]
fn split_off_to_at_gt_len() {
    fn make_bytes() -> Bytes {
        let mut bytes = BytesMut::with_capacity(100);
        bytes.put_slice(&[10, 20, 30, 40]);
        bytes.freeze()
    }

    use std::panic;

    let _ = make_bytes().split_to(4);
    let _ = make_bytes().split_off(4);

    assert!(panic::catch_unwind(move || {
        let _ = make_bytes().split_to(5);
    })
    .is_err());

    assert!(panic::catch_unwind(move || {
        let _ = make_bytes().split_off(5);
    })
    .is_err());
}

#[test]
fn truncate() {
    let s = &b"helloworld"[..];
    let mut hello = Bytes::from(s);
    hello.truncate(15);
    assert_eq!(hello, s);
    hello.truncate(10);
    assert_eq!(hello, s);
    hello.truncate(5);
    assert_eq!(hello, "hello");
}

#[test]
fn freeze_clone_shared() {
    let s = &b"abcdefgh"[..];
    let b = BytesMut::from(s).split().freeze();
    assert_eq!(b, s);
    let c = b.clone();
    assert_eq!(c, s);
}

#[test]
fn freeze_clone_unique() {
    let s = &b"abcdefgh"[..];
    let b = BytesMut::from(s).freeze();
    assert_eq!(b, s);
    let c = b.clone();
    assert_eq!(c, s);
}

#[test]
fn freeze_after_advance() {
    let s = &b"abcdefgh"[..];
    let mut b = BytesMut::from(s);
    b.advance(1);
    assert_eq!(b, s[1..]);
    let b = b.freeze();
    // Verify fix for #352. Previously, freeze would ignore the start offset
    // for BytesMuts in Vec mode.
    assert_eq!(b, s[1..]);
}

#[test]
fn freeze_after_advance_arc() {
    let s = &b"abcdefgh"[..];
    let mut b = BytesMut::from(s);
    // Make b Arc
    let _ = b.split_to(0);
    b.advance(1);
    assert_eq!(b, s[1..]);
    let b = b.freeze();
    assert_eq!(b, s[1..]);
}

#[test]
fn freeze_after_split_to() {
    let s = &b"abcdefgh"[..];
    let mut b = BytesMut::from(s);
    let _ = b.split_to(1);
    assert_eq!(b, s[1..]);
    let b = b.freeze();
    assert_eq!(b, s[1..]);
}

#[test]
fn freeze_after_truncate() {
    let s = &b"abcdefgh"[..];
    let mut b = BytesMut::from(s);
    b.truncate(7);
    assert_eq!(b, s[..7]);
    let b = b.freeze();
    assert_eq!(b, s[..7]);
}

#[test]
fn freeze_after_truncate_arc() {
    let s = &b"abcdefgh"[..];
    let mut b = BytesMut::from(s);
    // Make b Arc
    let _ = b.split_to(0);
    b.truncate(7);
    assert_eq!(b, s[..7]);
    let b = b.freeze();
    assert_eq!(b, s[..7]);
}

#[test]
fn freeze_after_split_off() {
    let s = &b"abcdefgh"[..];
    let mut b = BytesMut::from(s);
    let _ = b.split_off(7);
    assert_eq!(b, s[..7]);
    let b = b.freeze();
    assert_eq!(b, s[..7]);
}

#[test]
fn fns_defined_for_bytes_mut() {
    let mut bytes = BytesMut::from(&b"hello world"[..]);

    let _ = bytes.as_ptr();
    let _ = bytes.as_mut_ptr();

    // Iterator
    let v: Vec<u8> = bytes.as_ref().iter().cloned().collect();
    assert_eq!(&v[..], bytes);
}

#[test]
fn reserve_convert() {
    // Vec -> Vec
    let mut bytes = BytesMut::from(LONG);
    bytes.reserve(64);
    assert_eq!(bytes.capacity(), LONG.len() + 64);

    // Arc -> Vec
    let mut bytes = BytesMut::from(LONG);
    let a = bytes.split_to(30);

    bytes.reserve(128);
    assert!(bytes.capacity() >= bytes.len() + 128);

    drop(a);
}

#[test]
fn reserve_growth() {
    let mut bytes = BytesMut::with_capacity(64);
    bytes.put("hello world".as_bytes());
    let _ = bytes.split();

    bytes.reserve(65);
    assert_eq!(bytes.capacity(), 117);
}

#[test]
fn reserve_allocates_at_least_original_capacity() {
    let mut bytes = BytesMut::with_capacity(1024);

    for i in 0..1020 {
        bytes.put_u8(i as u8);
    }

    let _other = bytes.split();

    bytes.reserve(16);
    assert_eq!(bytes.capacity(), 1024);
}

#[test]
#[cfg_attr(miri, ignore)] // Miri is too slow
fn reserve_max_original_capacity_value() {
    const SIZE: usize = 128 * 1024;

    let mut bytes = BytesMut::with_capacity(SIZE);

    for _ in 0..SIZE {
        bytes.put_u8(0u8);
    }

    let _other = bytes.split();

    bytes.reserve(16);
    assert_eq!(bytes.capacity(), 64 * 1024);
}

#[test]
fn reserve_vec_recycling() {
    let mut bytes = BytesMut::with_capacity(16);
    assert_eq!(bytes.capacity(), 16);
    let addr = bytes.as_ptr() as usize;
    bytes.put("0123456789012345".as_bytes());
    assert_eq!(bytes.as_ptr() as usize, addr);
    bytes.advance(10);
    assert_eq!(bytes.capacity(), 6);
    bytes.reserve(8);
    assert_eq!(bytes.capacity(), 16);
    assert_eq!(bytes.as_ptr() as usize, addr);
}

#[test]
fn reserve_in_arc_unique_does_not_overallocate() {
    let mut bytes = BytesMut::with_capacity(1000);
    let _ = bytes.split();

    // now bytes is Arc and refcount == 1

    assert_eq!(1000, bytes.capacity());
    bytes.reserve(2001);
    assert_eq!(2001, bytes.capacity());
}

#[test]
fn reserve_in_arc_unique_doubles() {
    let mut bytes = BytesMut::with_capacity(1000);
    let _ = bytes.split();

    // now bytes is Arc and refcount == 1

    assert_eq!(1000, bytes.capacity());
    bytes.reserve(1001);
    assert_eq!(2000, bytes.capacity());
}

#[test]
fn reserve_in_arc_unique_does_not_overallocate_after_split() {
    let mut bytes = BytesMut::from(LONG);
    let orig_capacity = bytes.capacity();
    drop(bytes.split_off(LONG.len() / 2));

    // now bytes is Arc and refcount == 1

    let new_capacity = bytes.capacity();
    bytes.reserve(orig_capacity - new_capacity);
    assert_eq!(bytes.capacity(), orig_capacity);
}

#[test]
fn reserve_in_arc_unique_does_not_overallocate_after_multiple_splits() {
    let mut bytes = BytesMut::from(LONG);
    let orig_capacity = bytes.capacity();
    for _ in 0..10 {
        drop(bytes.split_off(LONG.len() / 2));

        // now bytes is Arc and refcount == 1

        let new_capacity = bytes.capacity();
        bytes.reserve(orig_capacity - new_capacity);
    }
    assert_eq!(bytes.capacity(), orig_capacity);
}

#[test]
fn reserve_in_arc_nonunique_does_not_overallocate() {
    let mut bytes = BytesMut::with_capacity(1000);
    let _copy = bytes.split();

    // now bytes is Arc and refcount == 2

    assert_eq!(1000, bytes.capacity());
    bytes.reserve(2001);
    assert_eq!(2001, bytes.capacity());
}

/// This function tests `BytesMut::reserve_inner`, where `BytesMut` holds
/// a unique reference to the shared vector and decide to reuse it
/// by reallocating the `Vec`.
#[test]
fn reserve_shared_reuse() {
    let mut bytes = BytesMut::with_capacity(1000);
    bytes.put_slice(b"Hello, World!");
    drop(bytes.split());

    bytes.put_slice(b"!123ex123,sadchELLO,_wORLD!");
    // Use split_off so that v.capacity() - self.cap != off
    drop(bytes.split_off(9));
    assert_eq!(&*bytes, b"!123ex123");

    bytes.reserve(2000);
    assert_eq!(&*bytes, b"!123ex123");
    assert_eq!(bytes.capacity(), 2009);
}

#[test]
fn extend_mut() {
    let mut bytes = BytesMut::with_capacity(0);
    bytes.extend(LONG);
    assert_eq!(*bytes, LONG[..]);
}

#[test]
fn extend_from_slice_mut() {
    for &i in &[3, 34] {
        let mut bytes = BytesMut::new();
        bytes.extend_from_slice(&LONG[..i]);
        bytes.extend_from_slice(&LONG[i..]);
        assert_eq!(LONG[..], *bytes);
    }
}

#[test]
fn extend_from_within_normal() {
    let mut bytes = BytesMut::new();
    bytes.extend_from_slice(&LONG[..23]);
    bytes.extend_from_within(10..22);
    bytes.extend_from_within(22..35);
    assert_eq!(LONG[..], *bytes);
}

#[test]
#[should_panic]
fn extend_from_within_out_of_range() {
    let mut bytes = BytesMut::new();
    bytes.extend_from_slice(&LONG[..23]);
    bytes.extend_from_within(23..=23);
}

#[test]
fn extend_mut_from_bytes() {
    let mut bytes = BytesMut::with_capacity(0);
    bytes.extend([Bytes::from(LONG)]);
    assert_eq!(*bytes, LONG[..]);
}

#[test]
fn extend_past_lower_limit_of_size_hint() {
    // See https://github.com/tokio-rs/bytes/pull/674#pullrequestreview-1913035700
    struct Iter<I>(I);

    impl<I: Iterator<Item = u8>> Iterator for Iter<I> {
        type Item = u8;

        fn next(&mut self) -> Option<Self::Item> {
            self.0.next()
        }

        fn size_hint(&self) -> (usize, Option<usize>) {
            (5, None)
        }
    }

    let mut bytes = BytesMut::with_capacity(5);
    bytes.extend(Iter(std::iter::repeat(0).take(10)));
    assert_eq!(bytes.len(), 10);
}

#[test]
fn extend_mut_without_size_hint() {
    let mut bytes = BytesMut::with_capacity(0);
    let mut long_iter = LONG.iter();

    // Use iter::from_fn since it doesn't know a size_hint
    bytes.extend(std::iter::from_fn(|| long_iter.next()));
    assert_eq!(*bytes, LONG[..]);
}

#[test]
fn from_static() {
    let mut a = Bytes::from_static(b"ab");
    let b = a.split_off(1);

    assert_eq!(a, b"a"[..]);
    assert_eq!(b, b"b"[..]);
}

#[test]
fn advance_static() {
    let mut a = Bytes::from_static(b"hello world");
    a.advance(6);
    assert_eq!(a, &b"world"[..]);
}

#[test]
fn advance_vec() {
    let mut a = Bytes::from(b"hello world boooo yah world zomg wat wat".to_vec());
    a.advance(16);
    assert_eq!(a, b"o yah world zomg wat wat"[..]);

    a.advance(4);
    assert_eq!(a, b"h world zomg wat wat"[..]);

    a.advance(6);
    assert_eq!(a, b"d zomg wat wat"[..]);
}

#[test]
fn advance_bytes_mut() {
    let mut a = BytesMut::from("hello world boooo yah world zomg wat wat");
    a.advance(16);
    assert_eq!(a, b"o yah world zomg wat wat"[..]);

    a.advance(4);
    assert_eq!(a, b"h world zomg wat wat"[..]);

    // Reserve some space.
    a.reserve(1024);
    assert_eq!(a, b"h world zomg wat wat"[..]);

    a.advance(6);
    assert_eq!(a, b"d zomg wat wat"[..]);
}

// Ensures BytesMut::advance reduces always capacity
//
// See https://github.com/tokio-rs/bytes/issues/725
#[test]
fn advance_bytes_mut_remaining_capacity() {
    // reduce the search space under miri
    let max_capacity = if cfg!(miri) { 16 } else { 256 };
    for capacity in 0..=max_capacity {
        for len in 0..=capacity {
            for advance in 0..=len {
                eprintln!("testing capacity={capacity}, len={len}, advance={advance}");
                let mut buf = BytesMut::with_capacity(capacity);

                buf.resize(len, 42);
                assert_eq!(buf.len(), len, "resize should write `len` bytes");
                assert_eq!(
                    buf.remaining(),
                    len,
                    "Buf::remaining() should equal BytesMut::len"
                );

                buf.advance(advance);
                assert_eq!(
                    buf.remaining(),
                    len - advance,
                    "Buf::advance should reduce the remaining len"
                );
                assert_eq!(
                    buf.capacity(),
                    capacity - advance,
                    "Buf::advance should reduce the remaining capacity"
                );
            }
        }
    }
}

#[test]
#[should_panic]
fn advance_past_len() {
    let mut a = BytesMut::from("hello world");
    a.advance(20);
}

#[test]
#[should_panic]
fn mut_advance_past_len() {
    let mut a = BytesMut::from("hello world");
    unsafe {
        a.advance_mut(20);
    }
}

#[test]
// Only run these tests on little endian systems. CI uses qemu for testing
// big endian... and qemu doesn't really support threading all that well.
#[cfg(any(miri, target_endian = "little"))]
#[cfg(not(target_family = "wasm"))] // wasm without experimental threads proposal doesn't support threads
fn stress() {
    // Tests promoting a buffer from a vec -> shared in a concurrent situation
    use std::sync::{Arc, Barrier};
    use std::thread;

    const THREADS: usize = 8;
    const ITERS: usize = if cfg!(miri) { 100 } else { 1_000 };

    for i in 0..ITERS {
        let data = [i as u8; 256];
        let buf = Arc::new(Bytes::copy_from_slice(&data[..]));

        let barrier = Arc::new(Barrier::new(THREADS));
        let mut joins = Vec::with_capacity(THREADS);

        for _ in 0..THREADS {
            let c = barrier.clone();
            let buf = buf.clone();

            joins.push(thread::spawn(move || {
                c.wait();
                let buf: Bytes = (*buf).clone();
                drop(buf);
            }));
        }

        for th in joins {
            th.join().unwrap();
        }

        assert_eq!(*buf, data[..]);
    }
}

#[test]
fn partial_eq_bytesmut() {
    let bytes = Bytes::from(&b"The quick red fox"[..]);
    let bytesmut = BytesMut::from(&b"The quick red fox"[..]);
    assert!(bytes == bytesmut);
    assert!(bytesmut == bytes);
    let bytes2 = Bytes::from(&b"Jumped over the lazy brown dog"[..]);
    assert!(bytes2 != bytesmut);
    assert!(bytesmut != bytes2);
}

#[test]
fn bytes_mut_unsplit_basic() {
    let mut buf = BytesMut::with_capacity(64);
    buf.extend_from_slice(b"aaabbbcccddd");

    let splitted = buf.split_off(6);
    assert_eq!(b"aaabbb", &buf[..]);
    assert_eq!(b"cccddd", &splitted[..]);

    buf.unsplit(splitted);
    assert_eq!(b"aaabbbcccddd", &buf[..]);
}

#[test]
fn bytes_mut_unsplit_empty_other() {
    let mut buf = BytesMut::with_capacity(64);
    buf.extend_from_slice(b"aaabbbcccddd");

    // empty other
    let other = BytesMut::new();

    buf.unsplit(other);
    assert_eq!(b"aaabbbcccddd", &buf[..]);
}

#[test]
fn bytes_mut_unsplit_empty_self() {
    // empty self
    let mut buf = BytesMut::new();

    let mut other = BytesMut::with_capacity(64);
    other.extend_from_slice(b"aaabbbcccddd");

    buf.unsplit(other);
    assert_eq!(b"aaabbbcccddd", &buf[..]);
}

#[test]
fn bytes_mut_unsplit_other_keeps_capacity() {
    let mut buf = BytesMut::with_capacity(64);
    buf.extend_from_slice(b"aabb");

    // non empty other created "from" buf
    let mut other = buf.split_off(buf.len());
    other.extend_from_slice(b"ccddee");
    buf.unsplit(other);

    assert_eq!(buf.capacity(), 64);
}

#[test]
fn bytes_mut_unsplit_empty_other_keeps_capacity() {
    let mut buf = BytesMut::with_capacity(64);
    buf.extend_from_slice(b"aabbccddee");

    // empty other created "from" buf
    let other = buf.split_off(buf.len());
    buf.unsplit(other);

    assert_eq!(buf.capacity(), 64);
}

#[test]
fn bytes_mut_unsplit_arc_different() {
    let mut buf = BytesMut::with_capacity(64);
    buf.extend_from_slice(b"aaaabbbbeeee");

    let _ = buf.split_off(8); //arc

    let mut buf2 = BytesMut::with_capacity(64);
    buf2.extend_from_slice(b"ccccddddeeee");

    let _ = buf2.split_off(8); //arc

    buf.unsplit(buf2);
    assert_eq!(b"aaaabbbbccccdddd", &buf[..]);
}

#[test]
fn bytes_mut_unsplit_arc_non_contiguous() {
    let mut buf = BytesMut::with_capacity(64);
    buf.extend_from_slice(b"aaaabbbbeeeeccccdddd");

    let mut buf2 = buf.split_off(8); //arc

    let buf3 = buf2.split_off(4); //arc

    buf.unsplit(buf3);
    assert_eq!(b"aaaabbbbccccdddd", &buf[..]);
}

#[test]
fn bytes_mut_unsplit_two_split_offs() {
    let mut buf = BytesMut::with_capacity(64);
    buf.extend_from_slice(b"aaaabbbbccccdddd");

    let mut buf2 = buf.split_off(8); //arc
    let buf3 = buf2.split_off(4); //arc

    buf2.unsplit(buf3);
    buf.unsplit(buf2);
    assert_eq!(b"aaaabbbbccccdddd", &buf[..]);
}

#[test]
fn from_iter_no_size_hint() {
    use std::iter;

    let mut expect = vec![];

    let actual: Bytes = iter::repeat(b'x')
        .scan(100, |cnt, item| {
            if *cnt >= 1 {
                *cnt -= 1;
                expect.push(item);
                Some(item)
            } else {
                None
            }
        })
        .collect();

    assert_eq!(&actual[..], &expect[..]);
}

fn test_slice_ref(bytes: &Bytes, start: usize, end: usize, expected: &[u8]) {
    let slice = &(bytes.as_ref()[start..end]);
    let sub = bytes.slice_ref(slice);
    assert_eq!(&sub[..], expected);
}

#[test]
fn slice_ref_works() {
    let bytes = Bytes::from(&b"012345678"[..]);

    test_slice_ref(&bytes, 0, 0, b"");
    test_slice_ref(&bytes, 0, 3, b"012");
    test_slice_ref(&bytes, 2, 6, b"2345");
    test_slice_ref(&bytes, 7, 9, b"78");
    test_slice_ref(&bytes, 9, 9, b"");
}

#[test]
fn slice_ref_empty() {
    let bytes = Bytes::from(&b""[..]);
    let slice = &(bytes.as_ref()[0..0]);

    let sub = bytes.slice_ref(slice);
    assert_eq!(&sub[..], b"");
}

#[test]
fn slice_ref_empty_subslice() {
    let bytes = Bytes::from(&b"abcde"[..]);
    let subbytes = bytes.slice(0..0);
    let slice = &subbytes[..];
    // The `slice` object is derived from the original `bytes` object
    // so `slice_ref` should work.
    assert_eq!(Bytes::new(), bytes.slice_ref(slice));
}

#[test]
#[should_panic]
fn slice_ref_catches_not_a_subset() {
    let bytes = Bytes::from(&b"012345678"[..]);
    let slice = &b"012345"[0..4];

    bytes.slice_ref(slice);
}

#[test]
fn slice_ref_not_an_empty_subset() {
    let bytes = Bytes::from(&b"012345678"[..]);
    let slice = &b""[0..0];

    assert_eq!(Bytes::new(), bytes.slice_ref(slice));
}

#[test]
fn empty_slice_ref_not_an_empty_subset() {
    let bytes = Bytes::new();
    let slice = &b"some other slice"[0..0];

    assert_eq!(Bytes::new(), bytes.slice_ref(slice));
}

#[test]
fn bytes_buf_mut_advance() {
    let mut bytes = BytesMut::with_capacity(1024);

    unsafe {
        let ptr = bytes.chunk_mut().as_mut_ptr();
        assert_eq!(1024, bytes.chunk_mut().len());

        bytes.advance_mut(10);

        let next = bytes.chunk_mut().as_mut_ptr();
        assert_eq!(1024 - 10, bytes.chunk_mut().len());
        assert_eq!(ptr.offset(10), next);

        // advance to the end
        bytes.advance_mut(1024 - 10);

        // The buffer size is doubled
        assert_eq!(1024, bytes.chunk_mut().len());
    }
}

#[test]
fn bytes_buf_mut_reuse_when_fully_consumed() {
    use bytes::{Buf, BytesMut};
    let mut buf = BytesMut::new();
    buf.reserve(8192);
    buf.extend_from_slice(&[0u8; 100][..]);

    let p = &buf[0] as *const u8;
    buf.advance(100);

    buf.reserve(8192);
    buf.extend_from_slice(b" ");

    assert_eq!(&buf[0] as *const u8, p);
}

#[test]
#[should_panic]
fn bytes_reserve_overflow() {
    let mut bytes = BytesMut::with_capacity(1024);
    bytes.put_slice(b"hello world");

    bytes.reserve(usize::MAX);
}

#[test]
fn bytes_with_capacity_but_empty() {
    // See https://github.com/tokio-rs/bytes/issues/340
    let vec = Vec::with_capacity(1);
    let _ = Bytes::from(vec);
}

#[test]
fn bytes_put_bytes() {
    let mut bytes = BytesMut::new();
    bytes.put_u8(17);
    bytes.put_bytes(19, 2);
    assert_eq!([17, 19, 19], bytes.as_ref());
}

#[test]
fn box_slice_empty() {
    // See https://github.com/tokio-rs/bytes/issues/340
    let empty: Box<[u8]> = Default::default();
    let b = Bytes::from(empty);
    assert!(b.is_empty());
}

#[test]
fn bytes_into_vec() {
    // Test kind == KIND_VEC
    let content = b"helloworld";

    let mut bytes = BytesMut::new();
    bytes.put_slice(content);

    let vec: Vec<u8> = bytes.into();
    assert_eq!(&vec, content);

    // Test kind == KIND_ARC, shared.is_unique() == True
    let mut bytes = BytesMut::new();
    bytes.put_slice(b"abcdewe23");
    bytes.put_slice(content);

    // Overwrite the bytes to make sure only one reference to the underlying
    // Vec exists.
    bytes = bytes.split_off(9);

    let vec: Vec<u8> = bytes.into();
    assert_eq!(&vec, content);

    // Test kind == KIND_ARC, shared.is_unique() == False
    let prefix = b"abcdewe23";

    let mut bytes = BytesMut::new();
    bytes.put_slice(prefix);
    bytes.put_slice(content);

    let vec: Vec<u8> = bytes.split_off(prefix.len()).into();
    assert_eq!(&vec, content);

    let vec: Vec<u8> = bytes.into();
    assert_eq!(&vec, prefix);
}

#[test]
fn test_bytes_into_vec() {
    // Test STATIC_VTABLE.to_vec
    let bs = b"1b23exfcz3r";
    let vec: Vec<u8> = Bytes::from_static(bs).into();
    assert_eq!(&*vec, bs);

    // Test bytes_mut.SHARED_VTABLE.to_vec impl
    eprintln!("1");
    let mut bytes_mut: BytesMut = bs[..].into();

    // Set kind to KIND_ARC so that after freeze, Bytes will use bytes_mut.SHARED_VTABLE
    eprintln!("2");
    drop(bytes_mut.split_off(bs.len()));

    eprintln!("3");
    let b1 = bytes_mut.freeze();
    eprintln!("4");
    let b2 = b1.clone();

    eprintln!("{:#?}", (&*b1).as_ptr());

    // shared.is_unique() = False
    eprintln!("5");
    assert_eq!(&*Vec::from(b2), bs);

    // shared.is_unique() = True
    eprintln!("6");
    assert_eq!(&*Vec::from(b1), bs);

    // Test bytes_mut.SHARED_VTABLE.to_vec impl where offset != 0
    let mut bytes_mut1: BytesMut = bs[..].into();
    let bytes_mut2 = bytes_mut1.split_off(9);

    let b1 = bytes_mut1.freeze();
    let b2 = bytes_mut2.freeze();

    assert_eq!(Vec::from(b2), bs[9..]);
    assert_eq!(Vec::from(b1), bs[..9]);
}

#[test]
fn test_bytes_into_vec_promotable_even() {
    let vec = vec![33u8; 1024];

    // Test cases where kind == KIND_VEC
    let b1 = Bytes::from(vec.clone());
    assert_eq!(Vec::from(b1), vec);

    // Test cases where kind == KIND_ARC, ref_cnt == 1
    let b1 = Bytes::from(vec.clone());
    drop(b1.clone());
    assert_eq!(Vec::from(b1), vec);

    // Test cases where kind == KIND_ARC, ref_cnt == 2
    let b1 = Bytes::from(vec.clone());
    let b2 = b1.clone();
    assert_eq!(Vec::from(b1), vec);

    // Test cases where vtable = SHARED_VTABLE, kind == KIND_ARC, ref_cnt == 1
    assert_eq!(Vec::from(b2), vec);

    // Test cases where offset != 0
    let mut b1 = Bytes::from(vec.clone());
    let b2 = b1.split_off(20);

    assert_eq!(Vec::from(b2), vec[20..]);
    assert_eq!(Vec::from(b1), vec[..20]);
}

#[test]
fn test_bytes_vec_conversion() {
    let mut vec = Vec::with_capacity(10);
    vec.extend(b"abcdefg");
    let b = Bytes::from(vec);
    let v = Vec::from(b);
    assert_eq!(v.len(), 7);
    assert_eq!(v.capacity(), 10);

    let mut b = Bytes::from(v);
    b.advance(1);
    let v = Vec::from(b);
    assert_eq!(v.len(), 6);
    assert_eq!(v.capacity(), 10);
    assert_eq!(v.as_slice(), b"bcdefg");
}

#[test]
fn test_bytes_mut_conversion() {
    let mut b1 = BytesMut::with_capacity(10);
    b1.extend(b"abcdefg");
    let b2 = Bytes::from(b1);
    let v = Vec::from(b2);
    assert_eq!(v.len(), 7);
    assert_eq!(v.capacity(), 10);

    let mut b = Bytes::from(v);
    b.advance(1);
    let v = Vec::from(b);
    assert_eq!(v.len(), 6);
    assert_eq!(v.capacity(), 10);
    assert_eq!(v.as_slice(), b"bcdefg");
}

#[test]
fn test_bytes_capacity_len() {
    for cap in 0..100 {
        for len in 0..=cap {
            let mut v = Vec::with_capacity(cap);
            v.resize(len, 0);
            let _ = Bytes::from(v);
        }
    }
}

#[test]
fn static_is_unique() {
    let b = Bytes::from_static(LONG);
    assert!(!b.is_unique());
}

#[test]
fn vec_is_unique() {
    let v: Vec<u8> = LONG.to_vec();
    let b = Bytes::from(v);
    assert!(b.is_unique());
}

#[test]
fn arc_is_unique() {
    let v: Vec<u8> = LONG.to_vec();
    let b = Bytes::from(v);
    let c = b.clone();
    assert!(!b.is_unique());
    drop(c);
    assert!(b.is_unique());
}

#[test]
fn shared_is_unique() {
    let v: Vec<u8> = LONG.to_vec();
    let b = Bytes::from(v);
    let c = b.clone();
    assert!(!c.is_unique());
    drop(b);
    assert!(c.is_unique());
}

#[test]
fn mut_shared_is_unique() {
    let mut b = BytesMut::from(LONG);
    let c = b.split().freeze();
    assert!(!c.is_unique());
    drop(b);
    assert!(c.is_unique());
}

#[test]
fn test_bytesmut_from_bytes_static() {
    let bs = b"1b23exfcz3r";

    // Test STATIC_VTABLE.to_mut
    let bytes_mut = BytesMut::from(Bytes::from_static(bs));
    assert_eq!(bytes_mut, bs[..]);
}

#[test]
fn test_bytesmut_from_bytes_bytes_mut_vec() {
    let bs = b"1b23exfcz3r";
    let bs_long = b"1b23exfcz3r1b23exfcz3r";

    // Test case where kind == KIND_VEC
    let mut bytes_mut: BytesMut = bs[..].into();
    bytes_mut = BytesMut::from(bytes_mut.freeze());
    assert_eq!(bytes_mut, bs[..]);
    bytes_mut.extend_from_slice(&bs[..]);
    assert_eq!(bytes_mut, bs_long[..]);
}

#[test]
fn test_bytesmut_from_bytes_bytes_mut_shared() {
    let bs = b"1b23exfcz3r";

    // Set kind to KIND_ARC so that after freeze, Bytes will use bytes_mut.SHARED_VTABLE
    let mut bytes_mut: BytesMut = bs[..].into();
    drop(bytes_mut.split_off(bs.len()));

    let b1 = bytes_mut.freeze();
    let b2 = b1.clone();

    // shared.is_unique() = False
    let mut b1m = BytesMut::from(b1);
    assert_eq!(b1m, bs[..]);
    b1m[0] = b'9';

    // shared.is_unique() = True
    let b2m = BytesMut::from(b2);
    assert_eq!(b2m, bs[..]);
}

#[test]
fn test_bytesmut_from_bytes_bytes_mut_offset() {
    let bs = b"1b23exfcz3r";

    // Test bytes_mut.SHARED_VTABLE.to_mut impl where offset != 0
    let mut bytes_mut1: BytesMut = bs[..].into();
    let bytes_mut2 = bytes_mut1.split_off(9);

    let b1 = bytes_mut1.freeze();
    let b2 = bytes_mut2.freeze();

    let b1m = BytesMut::from(b1);
    let b2m = BytesMut::from(b2);

    assert_eq!(b2m, bs[9..]);
    assert_eq!(b1m, bs[..9]);
}

#[test]
fn test_bytesmut_from_bytes_promotable_even_vec() {
    let vec = vec![33u8; 1024];

    // Test case where kind == KIND_VEC
    let b1 = Bytes::from(vec.clone());
    let b1m = BytesMut::from(b1);
    assert_eq!(b1m, vec);
}

#[test]
fn test_bytesmut_from_bytes_promotable_even_arc_1() {
    let vec = vec![33u8; 1024];

    // Test case where kind == KIND_ARC, ref_cnt == 1
    let b1 = Bytes::from(vec.clone());
    drop(b1.clone());
    let b1m = BytesMut::from(b1);
    assert_eq!(b1m, vec);
}

#[test]
fn test_bytesmut_from_bytes_promotable_even_arc_2() {
    let vec = vec![33u8; 1024];

    // Test case where kind == KIND_ARC, ref_cnt == 2
    let b1 = Bytes::from(vec.clone());
    let b2 = b1.clone();
    let b1m = BytesMut::from(b1);
    assert_eq!(b1m, vec);

    // Test case where vtable = SHARED_VTABLE, kind == KIND_ARC, ref_cnt == 1
    let b2m = BytesMut::from(b2);
    assert_eq!(b2m, vec);
}

#[test]
fn test_bytesmut_from_bytes_promotable_even_arc_offset() {
    let vec = vec![33u8; 1024];

    // Test case where offset != 0
    let mut b1 = Bytes::from(vec.clone());
    let b2 = b1.split_off(20);
    let b1m = BytesMut::from(b1);
    let b2m = BytesMut::from(b2);

    assert_eq!(b2m, vec[20..]);
    assert_eq!(b1m, vec[..20]);
}

#[test]
fn try_reclaim_empty() {
    let mut buf = BytesMut::new();
    assert_eq!(false, buf.try_reclaim(6));
    buf.reserve(6);
    assert_eq!(true, buf.try_reclaim(6));
    let cap = buf.capacity();
    assert!(cap >= 6);
    assert_eq!(false, buf.try_reclaim(cap + 1));

    let mut buf = BytesMut::new();
    buf.reserve(6);
    let cap = buf.capacity();
    assert!(cap >= 6);
    let mut split = buf.split();
    drop(buf);
    assert_eq!(0, split.capacity());
    assert_eq!(true, split.try_reclaim(6));
    assert_eq!(false, split.try_reclaim(cap + 1));
}

#[test]
fn try_reclaim_vec() {
    let mut buf = BytesMut::with_capacity(6);
    buf.put_slice(b"abc");
    // Reclaiming a ludicrous amount of space should calmly return false
    assert_eq!(false, buf.try_reclaim(usize::MAX));

    assert_eq!(false, buf.try_reclaim(6));
    buf.advance(2);
    assert_eq!(4, buf.capacity());
    // We can reclaim 5 bytes, because the byte in the buffer can be moved to the front. 6 bytes
    // cannot be reclaimed because there is already one byte stored
    assert_eq!(false, buf.try_reclaim(6));
    assert_eq!(true, buf.try_reclaim(5));
    buf.advance(1);
    assert_eq!(true, buf.try_reclaim(6));
    assert_eq!(6, buf.capacity());
}

#[test]
fn try_reclaim_arc() {
    let mut buf = BytesMut::with_capacity(6);
    buf.put_slice(b"abc");
    let x = buf.split().freeze();
    buf.put_slice(b"def");
    // Reclaiming a ludicrous amount of space should calmly return false
    assert_eq!(false, buf.try_reclaim(usize::MAX));

    let y = buf.split().freeze();
    let z = y.clone();
    assert_eq!(false, buf.try_reclaim(6));
    drop(x);
    drop(z);
    assert_eq!(false, buf.try_reclaim(6));
    drop(y);
    assert_eq!(true, buf.try_reclaim(6));
    assert_eq!(6, buf.capacity());
    assert_eq!(0, buf.len());
    buf.put_slice(b"abc");
    buf.put_slice(b"def");
    assert_eq!(6, buf.capacity());
    assert_eq!(6, buf.len());
    assert_eq!(false, buf.try_reclaim(6));
    buf.advance(4);
    assert_eq!(true, buf.try_reclaim(4));
    buf.advance(2);
    assert_eq!(true, buf.try_reclaim(6));
}

#[test]
fn slice_empty_addr() {
    let buf = Bytes::from(vec![0; 1024]);

    let ptr_start = buf.as_ptr();
    let ptr_end = ptr_start.wrapping_add(1024);

    let empty_end = buf.slice(1024..);
    assert_eq!(empty_end.len(), 0);
    assert_eq!(empty_end.as_ptr(), ptr_end);

    let empty_start = buf.slice(..0);
    assert_eq!(empty_start.len(), 0);
    assert_eq!(empty_start.as_ptr(), ptr_start);

    // Is miri happy about the provenance?
    let _ = &empty_end[..];
    let _ = &empty_start[..];
}

#[test]
fn split_off_empty_addr() {
    let mut buf = Bytes::from(vec![0; 1024]);

    let ptr_start = buf.as_ptr();
    let ptr_end = ptr_start.wrapping_add(1024);

    let empty_end = buf.split_off(1024);
    assert_eq!(empty_end.len(), 0);
    assert_eq!(empty_end.as_ptr(), ptr_end);

    let _ = buf.split_off(0);
    assert_eq!(buf.len(), 0);
    assert_eq!(buf.as_ptr(), ptr_start);

    // Is miri happy about the provenance?
    let _ = &empty_end[..];
    let _ = &buf[..];
}

#[test]
fn split_to_empty_addr() {
    let mut buf = Bytes::from(vec![0; 1024]);

    let ptr_start = buf.as_ptr();
    let ptr_end = ptr_start.wrapping_add(1024);

    let empty_start = buf.split_to(0);
    assert_eq!(empty_start.len(), 0);
    assert_eq!(empty_start.as_ptr(), ptr_start);

    let _ = buf.split_to(1024);
    assert_eq!(buf.len(), 0);
    assert_eq!(buf.as_ptr(), ptr_end);

    // Is miri happy about the provenance?
    let _ = &empty_start[..];
    let _ = &buf[..];
}

#[test]
fn split_off_empty_addr_mut() {
    let mut buf = BytesMut::from([0; 1024].as_slice());

    let ptr_start = buf.as_ptr();
    let ptr_end = ptr_start.wrapping_add(1024);

    let empty_end = buf.split_off(1024);
    assert_eq!(empty_end.len(), 0);
    assert_eq!(empty_end.as_ptr(), ptr_end);

    let _ = buf.split_off(0);
    assert_eq!(buf.len(), 0);
    assert_eq!(buf.as_ptr(), ptr_start);

    // Is miri happy about the provenance?
    let _ = &empty_end[..];
    let _ = &buf[..];
}

#[test]
fn split_to_empty_addr_mut() {
    let mut buf = BytesMut::from([0; 1024].as_slice());

    let ptr_start = buf.as_ptr();
    let ptr_end = ptr_start.wrapping_add(1024);

    let empty_start = buf.split_to(0);
    assert_eq!(empty_start.len(), 0);
    assert_eq!(empty_start.as_ptr(), ptr_start);

    let _ = buf.split_to(1024);
    assert_eq!(buf.len(), 0);
    assert_eq!(buf.as_ptr(), ptr_end);

    // Is miri happy about the provenance?
    let _ = &empty_start[..];
    let _ = &buf[..];
}

#[test]
fn bytes_mut_split_boundary_capacities() {
    // VEC mode
    for at in [0, 5, 11] {
        let mut buf = BytesMut::with_capacity(64);
        buf.extend_from_slice(b"hello world");

        let other = buf.split_off(at);
        assert_eq!(
            buf.capacity() + other.capacity(),
            64,
            "split_off at {} should preserve total capacity",
            at
        );
    }

    for at in [0, 5, 11] {
        let mut buf = BytesMut::with_capacity(64);
        buf.extend_from_slice(b"hello world");

        let other = buf.split_to(at);
        assert_eq!(
            buf.capacity() + other.capacity(),
            64,
            "split_to at {} should preserve total capacity",
            at
        );
    }

    // ARC mode (promote via a no-op split)
    for at in [0, 5, 11] {
        let mut buf = BytesMut::with_capacity(64);
        buf.extend_from_slice(b"hello world");
        let _ = buf.split_to(0); // promotes to ARC

        let other = buf.split_off(at);
        assert_eq!(
            buf.capacity() + other.capacity(),
            64,
            "ARC split_off at {} should preserve total capacity",
            at
        );
    }

    for at in [0, 5, 11] {
        let mut buf = BytesMut::with_capacity(64);
        buf.extend_from_slice(b"hello world");
        let _ = buf.split_to(0); // promotes to ARC

        let other = buf.split_to(at);
        assert_eq!(
            buf.capacity() + other.capacity(),
            64,
            "ARC split_to at {} should preserve total capacity",
            at
        );
    }
}

#[derive(Clone)]
struct SharedAtomicCounter(Arc<AtomicUsize>);

impl SharedAtomicCounter {
    pub fn new() -> Self {
        SharedAtomicCounter(Arc::new(AtomicUsize::new(0)))
    }

    pub fn increment(&self) {
        self.0.fetch_add(1, Ordering::AcqRel);
    }

    pub fn get(&self) -> usize {
        self.0.load(Ordering::Acquire)
    }
}

#[derive(Clone)]
struct OwnedTester<const L: usize> {
    buf: [u8; L],
    drop_count: SharedAtomicCounter,
    pub panic_as_ref: bool,
}

impl<const L: usize> OwnedTester<L> {
    fn new(buf: [u8; L], drop_count: SharedAtomicCounter) -> Self {
        Self {
            buf,
            drop_count,
            panic_as_ref: false,
        }
    }
}

impl<const L: usize> AsRef<[u8]> for OwnedTester<L> {
    fn as_ref(&self) -> &[u8] {
        if self.panic_as_ref {
            panic!("test-triggered panic in `AsRef<[u8]> for OwnedTester`");
        }
        self.buf.as_slice()
    }
}

impl<const L: usize> Drop for OwnedTester<L> {
    fn drop(&mut self) {
        self.drop_count.increment();
    }
}

#[test]
fn owned_is_unique_always_false() {
    let b1 = Bytes::from_owner([1, 2, 3, 4, 5, 6, 7]);
    assert!(!b1.is_unique()); // even if ref_cnt == 1
    let b2 = b1.clone();
    assert!(!b1.is_unique());
    assert!(!b2.is_unique());
    drop(b1);
    assert!(!b2.is_unique()); // even if ref_cnt == 1
}

#[test]
fn owned_buf_sharing() {
    let buf = [1, 2, 3, 4, 5, 6, 7];
    let b1 = Bytes::from_owner(buf);
    let b2 = b1.clone();
    assert_eq!(&buf[..], &b1[..]);
    assert_eq!(&buf[..], &b2[..]);
    assert_eq!(b1.as_ptr(), b2.as_ptr());
    assert_eq!(b1.len(), b2.len());
    assert_eq!(b1.len(), buf.len());
}

#[test]
fn owned_buf_slicing() {
    let b1 = Bytes::from_owner(SHORT);
    assert_eq!(SHORT, &b1[..]);
    let b2 = b1.slice(1..(b1.len() - 1));
    assert_eq!(&SHORT[1..(SHORT.len() - 1)], b2);
    assert_eq!(unsafe { SHORT.as_ptr().add(1) }, b2.as_ptr());
    assert_eq!(SHORT.len() - 2, b2.len());
}

#[test]
fn owned_dropped_exactly_once() {
    let buf: [u8; 5] = [1, 2, 3, 4, 5];
    let drop_counter = SharedAtomicCounter::new();
    let owner = OwnedTester::new(buf, drop_counter.clone());
    let b1 = Bytes::from_owner(owner);
    let b2 = b1.clone();
    assert_eq!(drop_counter.get(), 0);
    drop(b1);
    assert_eq!(drop_counter.get(), 0);
    let b3 = b2.slice(1..b2.len() - 1);
    drop(b2);
    assert_eq!(drop_counter.get(), 0);
    drop(b3);
    assert_eq!(drop_counter.get(), 1);
}

#[test]
fn owned_to_mut() {
    let buf: [u8; 10] = [0, 1, 2, 3, 4, 5, 6, 7, 8, 9];
    let drop_counter = SharedAtomicCounter::new();
    let owner = OwnedTester::new(buf, drop_counter.clone());
    let b1 = Bytes::from_owner(owner);

    // Holding an owner will fail converting to a BytesMut,
    // even when the bytes instance has a ref_cnt == 1.
    let b1 = b1.try_into_mut().unwrap_err();

    // That said, it's still possible, just not cheap.
    let bm1: BytesMut = b1.into();
    let new_buf = &bm1[..];
    assert_eq!(new_buf, &buf[..]);

    // `.into::<BytesMut>()` has correctly dropped the owner
    assert_eq!(drop_counter.get(), 1);
}

#[test]
fn owned_to_vec() {
    let buf: [u8; 10] = [0, 1, 2, 3, 4, 5, 6, 7, 8, 9];
    let drop_counter = SharedAtomicCounter::new();
    let owner = OwnedTester::new(buf, drop_counter.clone());
    let b1 = Bytes::from_owner(owner);

    let v1 = b1.to_vec();
    assert_eq!(&v1[..], &buf[..]);
    assert_eq!(&v1[..], &b1[..]);

    drop(b1);
    assert_eq!(drop_counter.get(), 1);
}

#[test]
fn owned_into_vec() {
    let drop_counter = SharedAtomicCounter::new();
    let buf: [u8; 10] = [0, 1, 2, 3, 4, 5, 6, 7, 8, 9];
    let owner = OwnedTester::new(buf, drop_counter.clone());
    let b1 = Bytes::from_owner(owner);

    let v1: Vec<u8> = b1.into();
    assert_eq!(&v1[..], &buf[..]);
    // into() vec will copy out of the owner and drop it
    assert_eq!(drop_counter.get(), 1);
}

#[test]
#[cfg_attr(not(panic = "unwind"), ignore)]
fn owned_safe_drop_on_as_ref_panic() {
    let buf: [u8; 10] = [0, 1, 2, 3, 4, 5, 6, 7, 8, 9];
    let drop_counter = SharedAtomicCounter::new();
    let mut owner = OwnedTester::new(buf, drop_counter.clone());
    owner.panic_as_ref = true;

    let result = panic::catch_unwind(AssertUnwindSafe(|| {
        let _ = Bytes::from_owner(owner);
    }));

    assert!(result.is_err());
    assert_eq!(drop_counter.get(), 1);
}

/// Test `BytesMut::put` reuses allocation of `Bytes`.
#[test]
fn bytes_mut_put_bytes_specialization() {
    let mut vec = Vec::with_capacity(1234);
    vec.push(10);
    let capacity = vec.capacity();
    assert!(capacity >= 1234);

    // Make `Bytes` backed by `Vec`.
    let bytes = Bytes::from(vec);
    let mut bytes_mut = BytesMut::new();
    bytes_mut.put(bytes);

    // Check contents is correct.
    assert_eq!(&[10], bytes_mut.as_ref());
    // If allocation is reused, capacity should be equal to original vec capacity.
    assert_eq!(bytes_mut.capacity(), capacity);
}

#[test]
#[should_panic]
fn bytes_mut_reserve_overflow() {
    let mut a = BytesMut::from(&b"hello world"[..]);
    let mut b = a.split_off(5);
    // Ensure b becomes the unique owner of the backing storage
    drop(a);
    // Trigger overflow in new_cap + offset inside reserve
    b.reserve(usize::MAX - 6);
    // This call relies on the corrupted cap and may cause UB & HBO
    b.put_u8(b'h');
}
