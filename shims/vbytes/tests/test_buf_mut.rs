#![warn(rust_2018_idioms)]

use bytes::buf::UninitSlice;
use bytes::{BufMut, BytesMut};
use core::fmt::Write;
use core::mem::MaybeUninit;

#[test]
fn test_vec_as_mut_buf() {
    let mut buf = Vec::with_capacity(64);

    assert_eq!(buf.remaining_mut(), isize::MAX as usize);

    assert!(buf.chunk_mut().len() >= 64);

    buf.put(&b"zomg"[..]);

    assert_eq!(&buf, b"zomg");

    assert_eq!(buf.remaining_mut(), isize::MAX as usize - 4);
    assert_eq!(buf.capacity(), 64);

    for _ in 0..16 {
        buf.put(&b"zomg"[..]);
    }

    assert_eq!(buf.len(), 68);
}

#[test]
fn test_vec_put_bytes() {
    let mut buf = Vec::new();
    buf.push(17);
    buf.put_bytes(19, 2);
    assert_eq!([17, 19, 19], &buf[..]);
}

#[test]
fn test_put_u8() {
    let mut buf = Vec::with_capacity(8);
    buf.put_u8(33);
    assert_eq!(b"\x21", &buf[..]);
}

#[test]
fn test_put_u16() {
    let mut buf = Vec::with_capacity(8);
    buf.put_u16(8532);
    assert_eq!(b"\x21\x54", &buf[..]);

    buf.clear();
    buf.put_u16_le(8532);
    assert_eq!(b"\x54\x21", &buf[..]);
}

#[test]
fn test_put_int() {
    let mut buf = Vec::with_capacity(8);
    buf.put_int(0x1020304050607080, 3);
    assert_eq!(b"\x60\x70\x80", &buf[..]);
}

#[test]
#[should_panic]
fn test_put_int_nbytes_overflow() {
    let mut buf = Vec::with_capacity(8);
    buf.put_int(0x1020304050607080, 9);
}

#[test]
fn test_put_int_le() {
    let mut buf = Vec::with_capacity(8);
    buf.put_int_le(0x1020304050607080, 3);
    assert_eq!(b"\x80\x70\x60", &buf[..]);
}

#[test]
#[should_panic]
fn test_put_int_le_nbytes_overflow() {
    let mut buf = Vec::with_capacity(8);
    buf.put_int_le(0x1020304050607080, 9);
}

#[test]
#[should_panic(expected = "advance out of bounds: the len is 8 but advancing by 12")]
fn test_vec_advance_mut() {
    // Verify fix for #354
    let mut buf = Vec::with_capacity(8);
    unsafe {
        buf.advance_mut(12);
    }
}

#[test]
fn test_clone() {
    let mut buf = BytesMut::with_capacity(100);
    buf.write_str("this is a test").unwrap();
    let buf2 = buf.clone();

    buf.write_str(" of our emergency broadcast system").unwrap();
    assert!(buf != buf2);
}

fn do_test_slice_small<T: ?Sized>(make: impl Fn(&mut [u8]) -> &mut T)
where
    for<'r> &'r mut T: BufMut,
{
    let mut buf = [b'X'; 8];

    let mut slice = make(&mut buf[..]);
    slice.put_bytes(b'A', 2);
    slice.put_u8(b'B');
    slice.put_slice(b"BCC");
    assert_eq!(2, slice.remaining_mut());
    assert_eq!(b"AABBCCXX", &buf[..]);

    let mut slice = make(&mut buf[..]);
    slice.put_u32(0x61626364);
    assert_eq!(4, slice.remaining_mut());
    assert_eq!(b"abcdCCXX", &buf[..]);

    let mut slice = make(&mut buf[..]);
    slice.put_u32_le(0x30313233);
    assert_eq!(4, slice.remaining_mut());
    assert_eq!(b"3210CCXX", &buf[..]);
}

fn do_test_slice_large<T: ?Sized>(make: impl Fn(&mut [u8]) -> &mut T)
where
    for<'r> &'r mut T: BufMut,
{
    const LEN: usize = 100;
    const FILL: [u8; LEN] = [b'Y'; LEN];

    let test = |fill: &dyn Fn(&mut &mut T, usize)| {
        for buf_len in 0..LEN {
            let mut buf = [b'X'; LEN];
            for fill_len in 0..=buf_len {
                let mut slice = make(&mut buf[..buf_len]);
                fill(&mut slice, fill_len);
                assert_eq!(buf_len - fill_len, slice.remaining_mut());
                let (head, tail) = buf.split_at(fill_len);
                assert_eq!(&FILL[..fill_len], head);
                assert!(tail.iter().all(|b| *b == b'X'));
            }
        }
    };

    test(&|slice, fill_len| slice.put_slice(&FILL[..fill_len]));
    test(&|slice, fill_len| slice.put_bytes(FILL[0], fill_len));
}

fn do_test_slice_put_slice_panics<T: ?Sized>(make: impl Fn(&mut [u8]) -> &mut T)
where
    for<'r> &'r mut T: BufMut,
{
    let mut buf = [b'X'; 4];
    let mut slice = make(&mut buf[..]);
    slice.put_slice(b"12345");
}

fn do_test_slice_put_bytes_panics<T: ?Sized>(make: impl Fn(&mut [u8]) -> &mut T)
where
    for<'r> &'r mut T: BufMut,
{
    let mut buf = [b'X'; 4];
    let mut slice = make(&mut buf[..]);
    slice.put_bytes(b'1', 5);
}

#[test]
fn test_slice_buf_mut_small() {
    do_test_slice_small(|x| x);
}

#[test]
fn test_slice_buf_mut_large() {
    do_test_slice_large(|x| x);
}

#[test]
#[should_panic]
fn test_slice_buf_mut_put_slice_overflow() {
    do_test_slice_put_slice_panics(|x| x);
}

#[test]
#[should_panic]
fn test_slice_buf_mut_put_bytes_overflow() {
    do_test_slice_put_bytes_panics(|x| x);
}

fn make_maybe_uninit_slice(slice: &mut [u8]) -> &mut [MaybeUninit<u8>] {
    // SAFETY: [u8] has the same layout as [MaybeUninit<u8>].
    unsafe { core::mem::transmute(slice) }
}

#[test]
fn test_maybe_uninit_buf_mut_small() {
    do_test_slice_small(make_maybe_uninit_slice);
}

#[test]
fn test_maybe_uninit_buf_mut_large() {
    do_test_slice_large(make_maybe_uninit_slice);
}

#[test]
#[should_panic]
fn test_maybe_uninit_buf_mut_put_slice_overflow() {
    do_test_slice_put_slice_panics(make_maybe_uninit_slice);
}

#[test]
#[should_panic]
fn test_maybe_uninit_buf_mut_put_bytes_overflow() {
    do_test_slice_put_bytes_panics(make_maybe_uninit_slice);
}

#[allow(unused_allocation)] // This is intentional.
#[test]
fn test_deref_bufmut_forwards() {
    struct Special;

    unsafe impl BufMut for Special {
        fn remaining_mut(&self) -> usize {
            unreachable!("remaining_mut");
        }

        fn chunk_mut(&mut self) -> &mut UninitSlice {
            unreachable!("chunk_mut");
        }

        unsafe fn advance_mut(&mut self, _: usize) {
            unreachable!("advance");
        }

        fn put_u8(&mut self, _: u8) {
            // specialized!
        }
    }

    // these should all use the specialized method
    Special.put_u8(b'x');
    (&mut Special as &mut dyn BufMut).put_u8(b'x');
    (Box::new(Special) as Box<dyn BufMut>).put_u8(b'x');
    Box::new(Special).put_u8(b'x');
}

#[test]
#[should_panic]
fn write_byte_panics_if_out_of_bounds() {
    let mut data = [b'b', b'a', b'r'];

    let slice = unsafe { UninitSlice::from_raw_parts_mut(data.as_mut_ptr(), 3) };
    slice.write_byte(4, b'f');
}

#[test]
#[should_panic]
fn copy_from_slice_panics_if_different_length_1() {
    let mut data = [b'b', b'a', b'r'];

    let slice = unsafe { UninitSlice::from_raw_parts_mut(data.as_mut_ptr(), 3) };
    slice.copy_from_slice(b"a");
}

#[test]
#[should_panic]
fn copy_from_slice_panics_if_different_length_2() {
    let mut data = [b'b', b'a', b'r'];

    let slice = unsafe { UninitSlice::from_raw_parts_mut(data.as_mut_ptr(), 3) };
    slice.copy_from_slice(b"abcd");
}

/// Test if with zero capacity BytesMut does not infinitely recurse in put from Buf
#[test]
fn test_bytes_mut_reuse() {
    let mut buf = BytesMut::new();
    buf.put(&[] as &[u8]);
    let mut buf = BytesMut::new();
    buf.put(&[1u8, 2, 3] as &[u8]);
}
