#![warn(rust_2018_idioms)]

use bytes::{buf::Limit, BufMut};

#[test]
fn long_limit() {
    let buf = &mut [0u8; 10];
    let limit = buf.limit(100);
    assert_eq!(10, limit.remaining_mut());
    assert_eq!(&[0u8; 10], &limit.get_ref()[..]);
}

#[test]
fn limit_get_mut() {
    let buf = &mut [0u8; 128];
    let mut limit = buf.limit(10);
    assert_eq!(10, limit.remaining_mut());
    assert_eq!(&mut [0u8; 128], &limit.get_mut()[..]);
}

#[test]
fn limit_set_limit() {
    let buf = &mut [0u8; 128];
    let mut limit = buf.limit(10);
    assert_eq!(10, Limit::limit(&limit));
    limit.set_limit(5);
    assert_eq!(5, Limit::limit(&limit));
}

#[test]
fn limit_chunk_mut() {
    let buf = &mut [0u8; 20];
    let mut limit = buf.limit(10);
    assert_eq!(10, limit.chunk_mut().len());

    let buf = &mut [0u8; 10];
    let mut limit = buf.limit(20);
    assert_eq!(10, limit.chunk_mut().len());
}

#[test]
#[should_panic = "advance out of bounds"]
fn limit_advance_mut_panic_1() {
    let buf = &mut [0u8; 10];
    let mut limit = buf.limit(100);
    unsafe {
        limit.advance_mut(50);
    }
}

#[test]
#[should_panic = "cnt <= self.limit"]
fn limit_advance_mut_panic_2() {
    let buf = &mut [0u8; 100];
    let mut limit = buf.limit(10);
    unsafe {
        limit.advance_mut(50);
    }
}

#[test]
fn limit_advance_mut() {
    let buf = &mut [0u8; 100];
    let mut limit = buf.limit(10);
    unsafe {
        limit.advance_mut(5);
    }
    assert_eq!(5, limit.remaining_mut());
    assert_eq!(5, limit.chunk_mut().len());
}

#[test]
fn limit_into_inner() {
    let buf_arr = *b"hello world";
    let buf: &mut [u8] = &mut buf_arr.clone();
    let mut limit = buf.limit(4);
    let mut dst = vec![];

    unsafe {
        limit.advance_mut(2);
    }

    let buf = limit.into_inner();
    dst.put(&buf[..]);
    assert_eq!(*dst, b"llo world"[..]);
}
