#![warn(rust_2018_idioms)]

use ::bytes::{Buf, Bytes, BytesMut};
use core::{cmp, mem};
use std::collections::VecDeque;
#[cfg(feature = "std")]
use std::io::IoSlice;

// A random 64-byte ascii string, with the first 8 bytes altered to
// give valid representations of f32 and f64 (making them easier to compare)
// and negative signed numbers when interpreting as big endian
// (testing Sign Extension for `Buf::get_int' and `Buf::get_int_ne`).
const INPUT: &[u8] = b"\xffFqrjrDqPhvTc45vvq33f6bJrUtyHESuTeklWKgYd64xgzxJwvAkpYYnpNJyZSRn";

macro_rules! e {
    ($big_endian_val:expr, $little_endian_val:expr) => {
        if cfg!(target_endian = "big") {
            $big_endian_val
        } else {
            $little_endian_val
        }
    };
}

macro_rules! buf_tests {
    ($make_input:ident) => {
        buf_tests!($make_input, true);
    };
    ($make_input:ident, $checks_vectored_is_complete:expr) => {
        use super::*;

        #[test]
        fn empty_state() {
            let buf = $make_input(&[]);
            assert_eq!(buf.remaining(), 0);
            assert!(!buf.has_remaining());
            assert!(buf.chunk().is_empty());
        }

        #[test]
        fn fresh_state() {
            let buf = $make_input(INPUT);
            assert_eq!(buf.remaining(), 64);
            assert!(buf.has_remaining());

            let chunk = buf.chunk();
            assert!(chunk.len() <= 64);
            assert!(INPUT.starts_with(chunk));
        }

        #[test]
        fn advance() {
            let mut buf = $make_input(INPUT);
            buf.advance(8);
            assert_eq!(buf.remaining(), 64 - 8);
            assert!(buf.has_remaining());

            let chunk = buf.chunk();
            assert!(chunk.len() <= 64 - 8);
            assert!(INPUT[8..].starts_with(chunk));
        }

        #[test]
        fn advance_to_end() {
            let mut buf = $make_input(INPUT);
            buf.advance(64);
            assert_eq!(buf.remaining(), 0);
            assert!(!buf.has_remaining());

            let chunk = buf.chunk();
            assert!(chunk.is_empty());
        }

        #[test]
        #[should_panic]
        fn advance_past_end() {
            let  mut buf = $make_input(INPUT);
            buf.advance(65);
        }

        #[test]
        #[cfg(feature = "std")]
        fn chunks_vectored_empty() {
            let  buf = $make_input(&[]);
            let mut bufs = [IoSlice::new(&[]); 16];

            let n = buf.chunks_vectored(&mut bufs);
            assert_eq!(n, 0);
            assert!(bufs.iter().all(|buf| buf.is_empty()));
        }

        #[test]
        #[cfg(feature = "std")]
        fn chunks_vectored_is_complete() {
            let buf = $make_input(INPUT);
            let mut bufs = [IoSlice::new(&[]); 16];

            let n = buf.chunks_vectored(&mut bufs);
            assert!(n > 0);
            assert!(n <= 16);

            let bufs_concat = bufs[..n]
                .iter()
                .flat_map(|b| b.iter().copied())
                .collect::<Vec<u8>>();
            if $checks_vectored_is_complete {
                assert_eq!(bufs_concat, INPUT);
            } else {
                // If this panics then `buf` implements `chunks_vectored`.
                // Remove the `false` argument from `buf_tests!` for that type.
                assert!(bufs_concat.len() < INPUT.len());
                assert!(INPUT.starts_with(&bufs_concat));
            }

            for i in n..16 {
                assert!(bufs[i].is_empty());
            }
        }

        #[test]
        fn copy_to_slice() {
            let mut buf = $make_input(INPUT);

            let mut chunk = [0u8; 8];
            buf.copy_to_slice(&mut chunk);
            assert_eq!(buf.remaining(), 64 - 8);
            assert!(buf.has_remaining());
            assert_eq!(chunk, INPUT[..8]);

            let chunk = buf.chunk();
            assert!(chunk.len() <= 64 - 8);
            assert!(INPUT[8..].starts_with(chunk));
        }

        #[test]
        fn copy_to_slice_big() {
            let mut buf = $make_input(INPUT);

            let mut chunk = [0u8; 56];
            buf.copy_to_slice(&mut chunk);
            assert_eq!(buf.remaining(), 64 - 56);
            assert!(buf.has_remaining());
            assert_eq!(chunk, INPUT[..56]);

            let chunk = buf.chunk();
            assert!(chunk.len() <= 64 - 56);
            assert!(INPUT[56..].starts_with(chunk));
        }

        #[test]
        fn copy_to_slice_to_end() {
            let mut buf = $make_input(INPUT);

            let mut chunk = [0u8; 64];
            buf.copy_to_slice(&mut chunk);
            assert_eq!(buf.remaining(), 0);
            assert!(!buf.has_remaining());
            assert_eq!(chunk, INPUT);

            assert!(buf.chunk().is_empty());
        }

        #[test]
        #[should_panic]
        fn copy_to_slice_overflow() {
            let mut buf = $make_input(INPUT);

            let mut chunk = [0u8; 65];
            buf.copy_to_slice(&mut chunk);
        }

        #[test]
        fn copy_to_bytes() {
            let mut buf = $make_input(INPUT);

            let chunk = buf.copy_to_bytes(8);
            assert_eq!(buf.remaining(), 64 - 8);
            assert!(buf.has_remaining());
            assert_eq!(chunk, INPUT[..8]);

            let chunk = buf.chunk();
            assert!(chunk.len() <= 64 - 8);
            assert!(INPUT[8..].starts_with(chunk));
        }

        #[test]
        fn copy_to_bytes_big() {
            let mut buf = $make_input(INPUT);

            let chunk = buf.copy_to_bytes(56);
            assert_eq!(buf.remaining(), 64 - 56);
            assert!(buf.has_remaining());
            assert_eq!(chunk, INPUT[..56]);

            let chunk = buf.chunk();
            assert!(chunk.len() <= 64 - 56);
            assert!(INPUT[56..].starts_with(chunk));
        }

        #[test]
        fn copy_to_bytes_to_end() {
            let mut buf = $make_input(INPUT);

            let chunk = buf.copy_to_bytes(64);
            assert_eq!(buf.remaining(), 0);
            assert!(!buf.has_remaining());
            assert_eq!(chunk, INPUT);

            assert!(buf.chunk().is_empty());
        }

        #[test]
        #[should_panic]
        fn copy_to_bytes_overflow() {
            let mut buf = $make_input(INPUT);

            let _ = buf.copy_to_bytes(65);
        }

        buf_tests!(number $make_input, get_u8, get_u8_overflow, u8, get_u8, 0xff);
        buf_tests!(number $make_input, get_i8, get_i8_overflow, i8, get_i8, 0xffu8 as i8);
        buf_tests!(number $make_input, get_u16_be, get_u16_be_overflow, u16, get_u16, 0xff46);
        buf_tests!(number $make_input, get_u16_le, get_u16_le_overflow, u16, get_u16_le, 0x46ff);
        buf_tests!(number $make_input, get_u16_ne, get_u16_ne_overflow, u16, get_u16_ne, e!(0xff46, 0x46ff));
        buf_tests!(number $make_input, get_i16_be, get_i16_be_overflow, i16, get_i16, 0xff46u16 as i16);
        buf_tests!(number $make_input, get_i16_le, get_i16_le_overflow, i16, get_i16_le, 0x46ff);
        buf_tests!(number $make_input, get_i16_ne, get_i16_ne_overflow, i16, get_i16_ne, e!(0xff46u16 as i16, 0x46ff));
        buf_tests!(number $make_input, get_u32_be, get_u32_be_overflow, u32, get_u32, 0xff467172);
        buf_tests!(number $make_input, get_u32_le, get_u32_le_overflow, u32, get_u32_le, 0x727146ff);
        buf_tests!(number $make_input, get_u32_ne, get_u32_ne_overflow, u32, get_u32_ne, e!(0xff467172, 0x727146ff));
        buf_tests!(number $make_input, get_i32_be, get_i32_be_overflow, i32, get_i32, 0xff467172u32 as i32);
        buf_tests!(number $make_input, get_i32_le, get_i32_le_overflow, i32, get_i32_le, 0x727146ff);
        buf_tests!(number $make_input, get_i32_ne, get_i32_ne_overflow, i32, get_i32_ne, e!(0xff467172u32 as i32, 0x727146ff));
        buf_tests!(number $make_input, get_u64_be, get_u64_be_overflow, u64, get_u64, 0xff4671726a724471);
        buf_tests!(number $make_input, get_u64_le, get_u64_le_overflow, u64, get_u64_le, 0x7144726a727146ff);
        buf_tests!(number $make_input, get_u64_ne, get_u64_ne_overflow, u64, get_u64_ne, e!(0xff4671726a724471, 0x7144726a727146ff));
        buf_tests!(number $make_input, get_i64_be, get_i64_be_overflow, i64, get_i64, 0xff4671726a724471u64 as i64);
        buf_tests!(number $make_input, get_i64_le, get_i64_le_overflow, i64, get_i64_le, 0x7144726a727146ff);
        buf_tests!(number $make_input, get_i64_ne, get_i64_ne_overflow, i64, get_i64_ne, e!(0xff4671726a724471u64 as i64, 0x7144726a727146ff));
        buf_tests!(number $make_input, get_u128_be, get_u128_be_overflow, u128, get_u128, 0xff4671726a7244715068765463343576);
        buf_tests!(number $make_input, get_u128_le, get_u128_le_overflow, u128, get_u128_le, 0x76353463547668507144726a727146ff);
        buf_tests!(number $make_input, get_u128_ne, get_u128_ne_overflow, u128, get_u128_ne, e!(0xff4671726a7244715068765463343576, 0x76353463547668507144726a727146ff));
        buf_tests!(number $make_input, get_i128_be, get_i128_be_overflow, i128, get_i128, 0xff4671726a7244715068765463343576u128 as i128);
        buf_tests!(number $make_input, get_i128_le, get_i128_le_overflow, i128, get_i128_le, 0x76353463547668507144726a727146ff);
        buf_tests!(number $make_input, get_i128_ne, get_i128_ne_overflow, i128, get_i128_ne, e!(0xff4671726a7244715068765463343576u128 as i128, 0x76353463547668507144726a727146ff));
        buf_tests!(number $make_input, get_f32_be, get_f32_be_overflow, f32, get_f32, f32::from_bits(0xff467172));
        buf_tests!(number $make_input, get_f32_le, get_f32_le_overflow, f32, get_f32_le, f32::from_bits(0x727146ff));
        buf_tests!(number $make_input, get_f32_ne, get_f32_ne_overflow, f32, get_f32_ne, f32::from_bits(e!(0xff467172, 0x727146ff)));
        buf_tests!(number $make_input, get_f64_be, get_f64_be_overflow, f64, get_f64, f64::from_bits(0xff4671726a724471));
        buf_tests!(number $make_input, get_f64_le, get_f64_le_overflow, f64, get_f64_le, f64::from_bits(0x7144726a727146ff));
        buf_tests!(number $make_input, get_f64_ne, get_f64_ne_overflow, f64, get_f64_ne, f64::from_bits(e!(0xff4671726a724471, 0x7144726a727146ff)));

        buf_tests!(var_number $make_input, get_uint_be, get_uint_be_zero, get_uint_be_overflow, u64, get_uint, 3, 0xff4671);
        buf_tests!(var_number $make_input, get_uint_le, get_uint_le_zero, get_uint_le_overflow, u64, get_uint_le, 3, 0x7146ff);
        buf_tests!(var_number $make_input, get_uint_ne, get_uint_ne_zero, get_uint_ne_overflow, u64, get_uint_ne, 3, e!(0xff4671, 0x7146ff));
        buf_tests!(var_number $make_input, get_int_be, get_int_be_zero, get_int_be_overflow, i64, get_int, 3, 0xffffffffffff4671u64 as i64);
        buf_tests!(var_number $make_input, get_int_le, get_int_le_zero, get_int_le_overflow, i64, get_int_le, 3, 0x7146ff);
        buf_tests!(var_number $make_input, get_int_ne, get_int_ne_zero, get_int_ne_overflow, i64, get_int_ne, 3, e!(0xffffffffffff4671u64 as i64, 0x7146ff));
    };
    (number $make_input:ident, $ok_name:ident, $panic_name:ident, $number:ty, $method:ident, $value:expr) => {
        #[test]
        fn $ok_name() {
            let mut buf = $make_input(INPUT);

            let value = buf.$method();
            assert_eq!(buf.remaining(), 64 - mem::size_of::<$number>());
            assert!(buf.has_remaining());
            assert_eq!(value, $value);
        }

        #[test]
        #[should_panic]
        fn $panic_name() {
            let mut buf = $make_input(&[]);

            let _ = buf.$method();
        }
    };
    (var_number $make_input:ident, $ok_name:ident, $ok_zero_name:ident, $panic_name:ident, $number:ty, $method:ident, $len:expr, $value:expr) => {
        #[test]
        fn $ok_name() {
            let mut buf = $make_input(INPUT);

            let value = buf.$method($len);
            assert_eq!(buf.remaining(), 64 - $len);
            assert!(buf.has_remaining());
            assert_eq!(value, $value);
        }

        // Regression test for https://github.com/tokio-rs/bytes/issues/798
        #[test]
        fn $ok_zero_name() {
            let mut buf = $make_input(INPUT);

            let value = buf.$method(0);
            assert_eq!(buf.remaining(), 64);
            assert!(buf.has_remaining());
            assert_eq!(value, 0);
        }

        #[test]
        #[should_panic]
        fn $panic_name() {
            let mut buf = $make_input(&[]);

            let _ = buf.$method($len);
        }
    };
}

mod u8_slice {
    fn make_input(buf: &'static [u8]) -> &'static [u8] {
        buf
    }

    buf_tests!(make_input);
}

mod bytes {
    fn make_input(buf: &'static [u8]) -> impl Buf {
        Bytes::from_static(buf)
    }

    buf_tests!(make_input);
}

mod bytes_mut {
    fn make_input(buf: &'static [u8]) -> impl Buf {
        BytesMut::from(buf)
    }

    buf_tests!(make_input);
}

mod vec_deque {
    fn make_input(buf: &'static [u8]) -> impl Buf {
        let mut deque = VecDeque::new();

        if !buf.is_empty() {
            // Construct |b|some bytes|a| `VecDeque`
            let mid = buf.len() / 2;
            let (a, b) = buf.split_at(mid);

            deque.reserve_exact(buf.len() + 1);

            let extra_space = deque.capacity() - b.len() - 1;
            deque.resize(extra_space, 0);

            deque.extend(a);
            deque.drain(..extra_space);
            deque.extend(b);

            let (a, b) = deque.as_slices();
            assert!(
                !a.is_empty(),
                "could not setup test - attempt to create discontiguous VecDeque failed"
            );
            assert!(
                !b.is_empty(),
                "could not setup test - attempt to create discontiguous VecDeque failed"
            );
        }

        deque
    }

    buf_tests!(make_input, true);
}

#[cfg(feature = "std")]
mod cursor {
    use std::io::Cursor;

    fn make_input(buf: &'static [u8]) -> impl Buf {
        Cursor::new(buf)
    }

    buf_tests!(make_input);
}

mod box_bytes {
    fn make_input(buf: &'static [u8]) -> impl Buf {
        Box::new(Bytes::from_static(buf))
    }

    buf_tests!(make_input);
}

mod chain_u8_slice {
    fn make_input(buf: &'static [u8]) -> impl Buf {
        let (a, b) = buf.split_at(buf.len() / 2);
        Buf::chain(a, b)
    }

    buf_tests!(make_input);
}

mod chain_small_big_u8_slice {
    fn make_input(buf: &'static [u8]) -> impl Buf {
        let mid = cmp::min(1, buf.len());
        let (a, b) = buf.split_at(mid);
        Buf::chain(a, b)
    }

    buf_tests!(make_input);
}

mod chain_limited_slices {
    fn make_input(buf: &'static [u8]) -> impl Buf {
        let buf3 = &buf[cmp::min(buf.len(), 3)..];
        let a = Buf::take(buf3, 0);
        let b = Buf::take(buf, 3);
        let c = Buf::take(buf3, usize::MAX);
        let d = buf;
        Buf::take(Buf::chain(Buf::chain(a, b), Buf::chain(c, d)), buf.len())
    }

    buf_tests!(make_input, true);
}

#[allow(unused_allocation)] // This is intentional.
#[test]
fn test_deref_buf_forwards() {
    struct Special;

    impl Buf for Special {
        fn remaining(&self) -> usize {
            unreachable!("remaining");
        }

        fn chunk(&self) -> &[u8] {
            unreachable!("chunk");
        }

        fn advance(&mut self, _: usize) {
            unreachable!("advance");
        }

        fn get_u8(&mut self) -> u8 {
            // specialized!
            b'x'
        }
    }

    // these should all use the specialized method
    assert_eq!(Special.get_u8(), b'x');
    assert_eq!((&mut Special as &mut dyn Buf).get_u8(), b'x');
    assert_eq!((Box::new(Special) as Box<dyn Buf>).get_u8(), b'x');
    assert_eq!(Box::new(Special).get_u8(), b'x');
}

#[test]
fn copy_to_bytes_mut() {
    let mut bytes_mut = BytesMut::from(b"foobar".as_slice());
    let ptr = bytes_mut.as_ptr();
    let ret = bytes_mut.copy_to_bytes(bytes_mut.len());
    assert_eq!(ret.as_ptr(), ptr);
    drop(bytes_mut);
    let bytes_mut2 = BytesMut::from(ret);
    assert_eq!(bytes_mut2.as_ptr(), ptr);
}
