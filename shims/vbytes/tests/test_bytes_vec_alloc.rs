#![cfg(not(miri))]
use std::alloc::{GlobalAlloc, Layout, System};
use std::ptr::null_mut;
use std::sync::atomic::{AtomicPtr, AtomicUsize, Ordering};

use bytes::{Buf, Bytes};

#[global_allocator]
static LEDGER: Ledger = Ledger::new();

const LEDGER_LENGTH: usize = 1024 * 1024;

struct Ledger {
    alloc_table: [(AtomicPtr<u8>, AtomicUsize); LEDGER_LENGTH],
}

impl Ledger {
    const fn new() -> Self {
        const ELEM: (AtomicPtr<u8>, AtomicUsize) =
            (AtomicPtr::new(null_mut()), AtomicUsize::new(0));
        let alloc_table = [ELEM; LEDGER_LENGTH];

        Self { alloc_table }
    }

    /// Iterate over our table until we find an open entry, then insert into said entry
    fn insert(&self, ptr: *mut u8, size: usize) {
        for (entry_ptr, entry_size) in self.alloc_table.iter() {
            // SeqCst is good enough here, we don't care about perf, i just want to be correct!
            if entry_ptr
                .compare_exchange(null_mut(), ptr, Ordering::SeqCst, Ordering::SeqCst)
                .is_ok()
            {
                entry_size.store(size, Ordering::SeqCst);
                return;
            }
        }

        panic!("Ledger ran out of space.");
    }

    fn remove(&self, ptr: *mut u8) -> usize {
        for (entry_ptr, entry_size) in self.alloc_table.iter() {
            // set the value to be something that will never try and be deallocated, so that we
            // don't have any chance of a race condition
            //
            // dont worry, LEDGER_LENGTH is really long to compensate for us not reclaiming space
            if entry_ptr
                .compare_exchange(
                    ptr,
                    invalid_ptr(usize::MAX),
                    Ordering::SeqCst,
                    Ordering::SeqCst,
                )
                .is_ok()
            {
                return entry_size.load(Ordering::SeqCst);
            }
        }

        panic!("Couldn't find a matching entry for {:x?}", ptr);
    }
}

unsafe impl GlobalAlloc for Ledger {
    unsafe fn alloc(&self, layout: Layout) -> *mut u8 {
        let size = layout.size();
        let ptr = System.alloc(layout);
        self.insert(ptr, size);
        ptr
    }

    unsafe fn dealloc(&self, ptr: *mut u8, layout: Layout) {
        let orig_size = self.remove(ptr);

        if orig_size != layout.size() {
            panic!(
                "bad dealloc: alloc size was {}, dealloc size is {}",
                orig_size,
                layout.size()
            );
        } else {
            System.dealloc(ptr, layout);
        }
    }
}

#[test]
fn test_bytes_advance() {
    let mut bytes = Bytes::from(vec![10, 20, 30]);
    bytes.advance(1);
    drop(bytes);
}

#[test]
fn test_bytes_truncate() {
    let mut bytes = Bytes::from(vec![10, 20, 30]);
    bytes.truncate(2);
    drop(bytes);
}

#[test]
fn test_bytes_truncate_and_advance() {
    let mut bytes = Bytes::from(vec![10, 20, 30]);
    bytes.truncate(2);
    bytes.advance(1);
    drop(bytes);
}

/// Returns a dangling pointer with the given address. This is used to store
/// integer data in pointer fields.
#[inline]
fn invalid_ptr<T>(addr: usize) -> *mut T {
    let ptr = std::ptr::null_mut::<u8>().wrapping_add(addr);
    debug_assert_eq!(ptr as usize, addr);
    ptr.cast::<T>()
}

#[test]
fn test_bytes_into_vec() {
    let vec = vec![33u8; 1024];

    // Test cases where kind == KIND_VEC
    let b1 = Bytes::from(vec.clone());
    assert_eq!(Vec::from(b1), vec);

    // Test cases where kind == KIND_ARC, ref_cnt == 1
    let b1 = Bytes::from(vec.clone());
    drop(b1.clone());
    assert_eq!(Vec::from(b1), vec);

    // Test cases where kind == KIND_ARC, ref_cnt == 2
    let b1 = Bytes::from(vec.clone());
    let b2 = b1.clone();
    assert_eq!(Vec::from(b1), vec);

    // Test cases where vtable = SHARED_VTABLE, kind == KIND_ARC, ref_cnt == 1
    assert_eq!(Vec::from(b2), vec);

    // Test cases where offset != 0
    let mut b1 = Bytes::from(vec.clone());
    let b2 = b1.split_off(20);

    assert_eq!(Vec::from(b2), vec[20..]);
    assert_eq!(Vec::from(b1), vec[..20]);
}
