// Verification model of `bytes::Bytes` (see /verif/DESIGN.md §3.4): an owned Vec plus a window, or a static
// slice.  clone/slice/split copy.  No sharing, no vtables, no atomics, no raw pointers.
use core::ops::{Deref, RangeBounds};
use core::{cmp, hash};

use alloc::{borrow::Borrow, boxed::Box, string::String, vec::Vec};

use crate::buf::IntoIter;
use crate::{Buf, BytesMut};

/// Model of a cheaply cloneable chunk of contiguous memory.
pub struct Bytes {
    kind: Kind,
}

enum Kind {
    Static(&'static [u8]),
    Owned { buf: Vec<u8>, start: usize, end: usize },
}

impl Bytes {
    /// Creates a new empty `Bytes`.
    #[inline]
    pub const fn new() -> Self {
        Bytes { kind: Kind::Static(&[]) }
    }

    /// Creates a new `Bytes` from a static slice.
    #[inline]
    pub const fn from_static(bytes: &'static [u8]) -> Self {
        Bytes { kind: Kind::Static(bytes) }
    }

    /// Create `Bytes` with a buffer whose lifetime is controlled via an explicit owner (model: copies).
    pub fn from_owner<T>(owner: T) -> Self
    where
        T: AsRef<[u8]> + Send + 'static,
    {
        let v = owner.as_ref().to_vec();
        drop(owner);
        Bytes::from(v)
    }

    pub(crate) fn from_vec_window(buf: Vec<u8>, start: usize, end: usize) -> Self {
        Bytes { kind: Kind::Owned { buf, start, end } }
    }

    /// Returns the number of bytes contained in this `Bytes`.
    #[inline]
    pub const fn len(&self) -> usize {
        match &self.kind {
            Kind::Static(s) => s.len(),
            Kind::Owned { start, end, .. } => *end - *start,
        }
    }

    /// Returns true if the `Bytes` has a length of 0.
    #[inline]
    pub const fn is_empty(&self) -> bool {
        self.len() == 0
    }

    /// Returns true if this is the only reference to the data (model: always).
    pub fn is_unique(&self) -> bool {
        !matches!(self.kind, Kind::Static(_))
    }

    /// Creates `Bytes` instance from slice, by copying it.
    pub fn copy_from_slice(data: &[u8]) -> Self {
        data.to_vec().into()
    }

    /// Returns a slice of self for the provided range.
    pub fn slice(&self, range: impl RangeBounds<usize>) -> Self {
        let (begin, end) = crate::range(range, self.len());
        match &self.kind {
            Kind::Static(s) => Bytes::from_static(&s[begin..end]),
            Kind::Owned { .. } => Bytes::copy_from_slice(&self.as_slice()[begin..end]),
        }
    }

    /// Returns a slice of self that is equivalent to the given `subset`.
    pub fn slice_ref(&self, subset: &[u8]) -> Self {
        if subset.is_empty() {
            return Bytes::new();
        }
        let bytes_p = self.as_ptr() as usize;
        let bytes_len = self.len();
        let sub_p = subset.as_ptr() as usize;
        let sub_len = subset.len();
        assert!(sub_p >= bytes_p, "subset pointer is smaller than self pointer");
        assert!(sub_p + sub_len <= bytes_p + bytes_len, "subset is out of bounds");
        let sub_offset = sub_p - bytes_p;
        self.slice(sub_offset..(sub_offset + sub_len))
    }

    /// Splits the bytes into two at the given index.
    #[must_use = "consider Bytes::truncate if you don't need the other half"]
    pub fn split_off(&mut self, at: usize) -> Self {
        assert!(at <= self.len(), "split_off out of bounds: {:?} <= {:?}", at, self.len());
        let ret = self.slice(at..);
        self.truncate(at);
        ret
    }

    /// Splits the bytes into two at the given index.
    #[must_use = "consider Bytes::advance if you don't need the other half"]
    pub fn split_to(&mut self, at: usize) -> Self {
        assert!(at <= self.len(), "split_to out of bounds: {:?} <= {:?}", at, self.len());
        let ret = self.slice(..at);
        self.advance_unchecked(at);
        ret
    }

    /// Shortens the buffer, keeping the first `len` bytes and dropping the rest.
    #[inline]
    pub fn truncate(&mut self, len: usize) {
        if len < self.len() {
            match &mut self.kind {
                Kind::Static(s) => *s = &s[..len],
                Kind::Owned { start, end, .. } => *end = *start + len,
            }
        }
    }

    /// Clears the buffer, removing all data.
    #[inline]
    pub fn clear(&mut self) {
        self.truncate(0);
    }

    /// Try to convert self into `BytesMut`.
    pub fn try_into_mut(self) -> Result<BytesMut, Bytes> {
        match self.kind {
            Kind::Static(_) => Err(self),
            Kind::Owned { .. } => Ok(BytesMut::from_vec(Vec::from(self))),
        }
    }

    #[inline]
    fn as_slice(&self) -> &[u8] {
        match &self.kind {
            Kind::Static(s) => s,
            Kind::Owned { buf, start, end } => &buf[*start..*end],
        }
    }

    #[inline]
    fn advance_unchecked(&mut self, cnt: usize) {
        match &mut self.kind {
            Kind::Static(s) => *s = &s[cnt..],
            Kind::Owned { start, .. } => *start += cnt,
        }
    }
}

impl Clone for Bytes {
    #[inline]
    fn clone(&self) -> Bytes {
        match &self.kind {
            Kind::Static(s) => Bytes::from_static(s),
            Kind::Owned { .. } => Bytes::copy_from_slice(self.as_slice()),
        }
    }
}

impl Buf for Bytes {
    #[inline]
    fn remaining(&self) -> usize {
        self.len()
    }

    #[inline]
    fn chunk(&self) -> &[u8] {
        self.as_slice()
    }

    #[inline]
    fn advance(&mut self, cnt: usize) {
        assert!(
            cnt <= self.len(),
            "cannot advance past `remaining`: {:?} <= {:?}",
            cnt,
            self.len(),
        );
        self.advance_unchecked(cnt);
    }

    fn copy_to_bytes(&mut self, len: usize) -> Self {
        self.split_to(len)
    }
}

impl Deref for Bytes {
    type Target = [u8];

    #[inline]
    fn deref(&self) -> &[u8] {
        self.as_slice()
    }
}

impl AsRef<[u8]> for Bytes {
    #[inline]
    fn as_ref(&self) -> &[u8] {
        self.as_slice()
    }
}

impl hash::Hash for Bytes {
    fn hash<H>(&self, state: &mut H)
    where
        H: hash::Hasher,
    {
        self.as_slice().hash(state);
    }
}

impl Borrow<[u8]> for Bytes {
    fn borrow(&self) -> &[u8] {
        self.as_slice()
    }
}

impl IntoIterator for Bytes {
    type Item = u8;
    type IntoIter = IntoIter<Bytes>;

    fn into_iter(self) -> Self::IntoIter {
        IntoIter::new(self)
    }
}

impl<'a> IntoIterator for &'a Bytes {
    type Item = &'a u8;
    type IntoIter = core::slice::Iter<'a, u8>;

    fn into_iter(self) -> Self::IntoIter {
        self.as_slice().iter()
    }
}

impl FromIterator<u8> for Bytes {
    fn from_iter<T: IntoIterator<Item = u8>>(into_iter: T) -> Self {
        Vec::from_iter(into_iter).into()
    }
}

// impl Eq

impl PartialEq for Bytes {
    fn eq(&self, other: &Bytes) -> bool {
        self.as_slice() == other.as_slice()
    }
}

impl PartialOrd for Bytes {
    fn partial_cmp(&self, other: &Bytes) -> Option<cmp::Ordering> {
        Some(self.cmp(other))
    }
}

impl Ord for Bytes {
    fn cmp(&self, other: &Bytes) -> cmp::Ordering {
        self.as_slice().cmp(other.as_slice())
    }
}

impl Eq for Bytes {}

impl PartialEq<[u8]> for Bytes {
    fn eq(&self, other: &[u8]) -> bool {
        self.as_slice() == other
    }
}

impl PartialOrd<[u8]> for Bytes {
    fn partial_cmp(&self, other: &[u8]) -> Option<cmp::Ordering> {
        self.as_slice().partial_cmp(other)
    }
}

impl PartialEq<Bytes> for [u8] {
    fn eq(&self, other: &Bytes) -> bool {
        *other == *self
    }
}

impl PartialOrd<Bytes> for [u8] {
    fn partial_cmp(&self, other: &Bytes) -> Option<cmp::Ordering> {
        <[u8] as PartialOrd<[u8]>>::partial_cmp(self, other)
    }
}

impl PartialEq<str> for Bytes {
    fn eq(&self, other: &str) -> bool {
        self.as_slice() == other.as_bytes()
    }
}

impl PartialOrd<str> for Bytes {
    fn partial_cmp(&self, other: &str) -> Option<cmp::Ordering> {
        self.as_slice().partial_cmp(other.as_bytes())
    }
}

impl PartialEq<Bytes> for str {
    fn eq(&self, other: &Bytes) -> bool {
        *other == *self
    }
}

impl PartialOrd<Bytes> for str {
    fn partial_cmp(&self, other: &Bytes) -> Option<cmp::Ordering> {
        <[u8] as PartialOrd<[u8]>>::partial_cmp(self.as_bytes(), other)
    }
}

impl PartialEq<Vec<u8>> for Bytes {
    fn eq(&self, other: &Vec<u8>) -> bool {
        *self == other[..]
    }
}

impl PartialOrd<Vec<u8>> for Bytes {
    fn partial_cmp(&self, other: &Vec<u8>) -> Option<cmp::Ordering> {
        self.as_slice().partial_cmp(&other[..])
    }
}

impl PartialEq<Bytes> for Vec<u8> {
    fn eq(&self, other: &Bytes) -> bool {
        *other == *self
    }
}

impl PartialOrd<Bytes> for Vec<u8> {
    fn partial_cmp(&self, other: &Bytes) -> Option<cmp::Ordering> {
        <[u8] as PartialOrd<[u8]>>::partial_cmp(self, other)
    }
}

impl PartialEq<String> for Bytes {
    fn eq(&self, other: &String) -> bool {
        *self == other[..]
    }
}

impl PartialOrd<String> for Bytes {
    fn partial_cmp(&self, other: &String) -> Option<cmp::Ordering> {
        self.as_slice().partial_cmp(other.as_bytes())
    }
}

impl PartialEq<Bytes> for String {
    fn eq(&self, other: &Bytes) -> bool {
        *other == *self
    }
}

impl PartialOrd<Bytes> for String {
    fn partial_cmp(&self, other: &Bytes) -> Option<cmp::Ordering> {
        <[u8] as PartialOrd<[u8]>>::partial_cmp(self.as_bytes(), other)
    }
}

impl PartialEq<Bytes> for &[u8] {
    fn eq(&self, other: &Bytes) -> bool {
        *other == *self
    }
}

impl PartialOrd<Bytes> for &[u8] {
    fn partial_cmp(&self, other: &Bytes) -> Option<cmp::Ordering> {
        <[u8] as PartialOrd<[u8]>>::partial_cmp(self, other)
    }
}

impl PartialEq<Bytes> for &str {
    fn eq(&self, other: &Bytes) -> bool {
        *other == *self
    }
}

impl PartialOrd<Bytes> for &str {
    fn partial_cmp(&self, other: &Bytes) -> Option<cmp::Ordering> {
        <[u8] as PartialOrd<[u8]>>::partial_cmp(self.as_bytes(), other)
    }
}

impl<'a, T: ?Sized> PartialEq<&'a T> for Bytes
where
    Bytes: PartialEq<T>,
{
    fn eq(&self, other: &&'a T) -> bool {
        *self == **other
    }
}

impl<'a, T: ?Sized> PartialOrd<&'a T> for Bytes
where
    Bytes: PartialOrd<T>,
{
    fn partial_cmp(&self, other: &&'a T) -> Option<cmp::Ordering> {
        self.partial_cmp(&**other)
    }
}

// impl From

impl Default for Bytes {
    #[inline]
    fn default() -> Bytes {
        Bytes::new()
    }
}

impl From<&'static [u8]> for Bytes {
    fn from(slice: &'static [u8]) -> Bytes {
        Bytes::from_static(slice)
    }
}

impl From<&'static str> for Bytes {
    fn from(slice: &'static str) -> Bytes {
        Bytes::from_static(slice.as_bytes())
    }
}

impl From<Vec<u8>> for Bytes {
    fn from(vec: Vec<u8>) -> Bytes {
        let end = vec.len();
        Bytes::from_vec_window(vec, 0, end)
    }
}

impl From<Box<[u8]>> for Bytes {
    fn from(slice: Box<[u8]>) -> Bytes {
        Bytes::from(slice.into_vec())
    }
}

impl From<Bytes> for BytesMut {
    fn from(bytes: Bytes) -> Self {
        BytesMut::from_vec(Vec::from(bytes))
    }
}

impl From<String> for Bytes {
    fn from(s: String) -> Bytes {
        Bytes::from(s.into_bytes())
    }
}

impl From<Bytes> for Vec<u8> {
    fn from(bytes: Bytes) -> Vec<u8> {
        match bytes.kind {
            Kind::Static(s) => s.to_vec(),
            Kind::Owned { mut buf, start, end } => {
                if start == 0 {
                    buf.truncate(end);
                    buf
                } else {
                    buf[start..end].to_vec()
                }
            }
        }
    }
}
