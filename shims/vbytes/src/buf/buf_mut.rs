use crate::buf::{limit, Chain, Limit, UninitSlice};
#[cfg(feature = "std")]
use crate::buf::{writer, Writer};
use crate::{panic_advance, panic_does_not_fit, TryGetError};

use core::{mem, ptr};

use alloc::{boxed::Box, vec::Vec};

/// A trait for values that provide sequential write access to bytes.
///
/// Write bytes to a buffer
///
/// A buffer stores bytes in memory such that write operations are infallible.
/// The underlying storage may or may not be in contiguous memory. A `BufMut`
/// value is a cursor into the buffer. Writing to `BufMut` advances the cursor
/// position.
///
/// The simplest `BufMut` is a `Vec<u8>`.
///
/// ```
/// use bytes::BufMut;
///
/// let mut buf = vec![];
///
/// buf.put(&b"hello world"[..]);
///
/// assert_eq!(buf, b"hello world");
/// ```
pub unsafe trait BufMut {
    /// Returns the number of bytes that can be written from the current
    /// position until the end of the buffer is reached.
    ///
    /// This value is greater than or equal to the length of the slice returned
    /// by `chunk_mut()`.
    ///
    /// Writing to a `BufMut` may involve allocating more memory on the fly.
    /// Implementations may fail before reaching the number of bytes indicated
    /// by this method if they encounter an allocation failure.
    ///
    /// # Examples
    ///
    /// ```
    /// use bytes::BufMut;
    ///
    /// let mut dst = [0; 10];
    /// let mut buf = &mut dst[..];
    ///
    /// let original_remaining = buf.remaining_mut();
    /// buf.put(&b"hello"[..]);
    ///
    /// assert_eq!(original_remaining - 5, buf.remaining_mut());
    /// ```
    ///
    /// # Implementer notes
    ///
    /// Implementations of `remaining_mut` should ensure that the return value
    /// does not change unless a call is made to `advance_mut` or any other
    /// function that is documented to change the `BufMut`'s current position.
    ///
    /// # Note
    ///
    /// `remaining_mut` may return value smaller than actual available space.
    fn remaining_mut(&self) -> usize;

    /// Advance the internal cursor of the BufMut
    ///
    /// The next call to `chunk_mut` will return a slice starting `cnt` bytes
    /// further into the underlying buffer.
    ///
    /// # Safety
    ///
    /// The caller must ensure that the next `cnt` bytes of `chunk` are
    /// initialized.
    ///
    /// # Examples
    ///
    /// ```
    /// use bytes::BufMut;
    ///
    /// let mut buf = Vec::with_capacity(16);
    ///
    /// // Write some data
    /// buf.chunk_mut()[0..2].copy_from_slice(b"he");
    /// unsafe { buf.advance_mut(2) };
    ///
    /// // write more bytes
    /// buf.chunk_mut()[0..3].copy_from_slice(b"llo");
    ///
    /// unsafe { buf.advance_mut(3); }
    ///
    /// assert_eq!(5, buf.len());
    /// assert_eq!(buf, b"hello");
    /// ```
    ///
    /// # Panics
    ///
    /// This function **may** panic if `cnt > self.remaining_mut()`.
    ///
    /// # Implementer notes
    ///
    /// It is recommended for implementations of `advance_mut` to panic if
    /// `cnt > self.remaining_mut()`. If the implementation does not panic,
    /// the call must behave as if `cnt == self.remaining_mut()`.
    ///
    /// A call with `cnt == 0` should never panic and be a no-op.
    unsafe fn advance_mut(&mut self, cnt: usize);

    /// Returns true if there is space in `self` for more bytes.
    ///
    /// This is equivalent to `self.remaining_mut() != 0`.
    ///
    /// # Examples
    ///
    /// ```
    /// use bytes::BufMut;
    ///
    /// let mut dst = [0; 5];
    /// let mut buf = &mut dst[..];
    ///
    /// assert!(buf.has_remaining_mut());
    ///
    /// buf.put(&b"hello"[..]);
    ///
    /// assert!(!buf.has_remaining_mut());
    /// ```
    #[inline]
    fn has_remaining_mut(&self) -> bool {
        self.remaining_mut() > 0
    }

    /// Returns a mutable slice starting at the current BufMut position and of
    /// length between 0 and `BufMut::remaining_mut()`. Note that this *can* be shorter than the
    /// whole remainder of the buffer (this allows non-continuous implementation).
    ///
    /// This is a lower level function. Most operations are done with other
    /// functions.
    ///
    /// The returned byte slice may represent uninitialized memory.
    ///
    /// # Examples
    ///
    /// ```
    /// use bytes::BufMut;
    ///
    /// let mut buf = Vec::with_capacity(16);
    ///
    /// unsafe {
    ///     // MaybeUninit::as_mut_ptr
    ///     buf.chunk_mut()[0..].as_mut_ptr().write(b'h');
    ///     buf.chunk_mut()[1..].as_mut_ptr().write(b'e');
    ///
    ///     buf.advance_mut(2);
    ///
    ///     buf.chunk_mut()[0..].as_mut_ptr().write(b'l');
    ///     buf.chunk_mut()[1..].as_mut_ptr().write(b'l');
    ///     buf.chunk_mut()[2..].as_mut_ptr().write(b'o');
    ///
    ///     buf.advance_mut(3);
    /// }
    ///
    /// assert_eq!(5, buf.len());
    /// assert_eq!(buf, b"hello");
    /// ```
    ///
    /// # Implementer notes
    ///
    /// This function should never panic. `chunk_mut()` should return an empty
    /// slice **if and only if** `remaining_mut()` returns 0. In other words,
    /// `chunk_mut()` returning an empty slice implies that `remaining_mut()` will
    /// return 0 and `remaining_mut()` returning 0 implies that `chunk_mut()` will
    /// return an empty slice.
    ///
    /// This function may trigger an out-of-memory abort if it tries to allocate
    /// memory and fails to do so.
    // The `chunk_mut` method was previously called `bytes_mut`. This alias makes the
    // rename more easily discoverable.
    #[cfg_attr(docsrs, doc(alias = "bytes_mut"))]
    fn chunk_mut(&mut self) -> &mut UninitSlice;

    /// Transfer bytes into `self` from `src` and advance the cursor by the
    /// number of bytes written.
    ///
    /// # Examples
    ///
    /// ```
    /// use bytes::BufMut;
    ///
    /// let mut buf = vec![];
    ///
    /// buf.put_u8(b'h');
    /// buf.put(&b"ello"[..]);
    /// buf.put(&b" world"[..]);
    ///
    /// assert_eq!(buf, b"hello world");
    /// ```
    ///
    /// # Panics
    ///
    /// Panics if `self` does not have enough capacity to contain `src`.
    #[inline]
    fn put<T: super::Buf>(&mut self, mut src: T)
    where
        Self: Sized,
    {
        if self.remaining_mut() < src.remaining() {
            panic_advance(&TryGetError {
                requested: src.remaining(),
                available: self.remaining_mut(),
            });
        }

        while src.has_remaining() {
            let s = src.chunk();
            let d = self.chunk_mut();
            let cnt = usize::min(s.len(), d.len());

            d[..cnt].copy_from_slice(&s[..cnt]);

            // SAFETY: We just initialized `cnt` bytes in `self`.
            unsafe { self.advance_mut(cnt) };
            src.advance(cnt);
        }
    }

    /// Transfer bytes into `self` from `src` and advance the cursor by the
    /// number of bytes written.
    ///
    /// `self` must have enough remaining capacity to contain all of `src`.
    ///
    /// ```
    /// use bytes::BufMut;
    ///
    /// let mut dst = [0; 6];
    ///
    /// {
    ///     let mut buf = &mut dst[..];
    ///     buf.put_slice(b"hello");
    ///
    ///     assert_eq!(1, buf.remaining_mut());
    /// }
    ///
    /// assert_eq!(b"hello\0", &dst);
    /// ```
    #[inline]
    fn put_slice(&mut self, mut src: &[u8]) {
        if self.remaining_mut() < src.len() {
            panic_advance(&TryGetError {
                requested: src.len(),
                available: self.remaining_mut(),
            });
        }

        while !src.is_empty() {
            let dst = self.chunk_mut();
            let cnt = usize::min(src.len(), dst.len());

            dst[..cnt].copy_from_slice(&src[..cnt]);
            src = &src[cnt..];

            // SAFETY: We just initialized `cnt` bytes in `self`.
            unsafe { self.advance_mut(cnt) };
        }
    }

    /// Put `cnt` bytes `val` into `self`.
    ///
    /// Logically equivalent to calling `self.put_u8(val)` `cnt` times, but may work faster.
    ///
    /// `self` must have at least `cnt` remaining capacity.
    ///
    /// ```
    /// use bytes::BufMut;
    ///
    /// let mut dst = [0; 6];
    ///
    /// {
    ///     let mut buf = &mut dst[..];
    ///     buf.put_bytes(b'a', 4);
    ///
    ///     assert_eq!(2, buf.remaining_mut());
    /// }
    ///
    /// assert_eq!(b"aaaa\0\0", &dst);
    /// ```
    ///
    /// # Panics
    ///
    /// This function panics if there is not enough remaining capacity in
    /// `self`.
    #[inline]
    fn put_bytes(&mut self, val: u8, mut cnt: usize) {
        if self.remaining_mut() < cnt {
            panic_advance(&TryGetError {
                requested: cnt,
                available: self.remaining_mut(),
            })
        }

        while cnt > 0 {
            let dst = self.chunk_mut();
            let dst_len = usize::min(dst.len(), cnt);
            // SAFETY: The pointer is valid for `dst_len <= dst.len()` bytes.
            unsafe { core::ptr::write_bytes(dst.as_mut_ptr(), val, dst_len) };
            // SAFETY: We just initialized `dst_len` bytes in `self`.
            unsafe { self.advance_mut(dst_len) };
            cnt -= dst_len;
        }
    }

    /// Writes an unsigned 8 bit integer to `self`.
    ///
    /// The current position is advanced by 1.
    ///
    /// # Examples
    ///
    /// ```
    /// use bytes::BufMut;
    ///
    /// let mut buf = vec![];
    /// buf.put_u8(0x01);
    /// assert_eq!(buf, b"\x01");
    /// ```
    ///
    /// # Panics
    ///
    /// This function panics if there is not enough remaining capacity in
    /// `self`.
    #[inline]
    fn put_u8(&mut self, n: u8) {
        let src = [n];
        self.put_slice(&src);
    }

    /// Writes a signed 8 bit integer to `self`.
    ///
    /// The current position is advanced by 1.
    ///
    /// # Examples
    ///
    /// ```
    /// use bytes::BufMut;
    ///
    /// let mut buf = vec![];
    /// buf.put_i8(0x01);
    /// assert_eq!(buf, b"\x01");
    /// ```
    ///
    /// # Panics
    ///
    /// This function panics if there is not enough remaining capacity in
    /// `self`.
    #[inline]
    fn put_i8(&mut self, n: i8) {
        let src = [n as u8];
        self.put_slice(&src)
    }

    /// Writes an unsigned 16 bit integer to `self` in big-endian byte order.
    ///
    /// The current position is advanced by 2.
    ///
    /// # Examples
    ///
    /// ```
    /// use bytes::BufMut;
    ///
    /// let mut buf = vec![];
    /// buf.put_u16(0x0809);
    /// assert_eq!(buf, b"\x08\x09");
    /// ```
    ///
    /// # Panics
    ///
    /// This function panics if there is not enough remaining capacity in
    /// `self`.
    #[inline]
    fn put_u16(&mut self, n: u16) {
        self.put_slice(&n.to_be_bytes())
    }

    /// Writes an unsigned 16 bit integer to `self` in little-endian byte order.
    ///
    /// The current position is advanced by 2.
    ///
    /// # Examples
    ///
    /// ```
    /// use bytes::BufMut;
    ///
    /// let mut buf = vec![];
    /// buf.put_u16_le(0x0809);
    /// assert_eq!(buf, b"\x09\x08");
    /// ```
    ///
    /// # Panics
    ///
    /// This function panics if there is not enough remaining capacity in
    /// `self`.
    #[inline]
    fn put_u16_le(&mut self, n: u16) {
        self.put_slice(&n.to_le_bytes())
    }

    /// Writes an unsigned 16 bit integer to `self` in native-endian byte order.
    ///
    /// The current position is advanced by 2.
    ///
    /// # Examples
    ///
    /// ```
    /// use bytes::BufMut;
    ///
    /// let mut buf = vec![];
    /// buf.put_u16_ne(0x0809);
    /// if cfg!(target_endian = "big") {
    ///     assert_eq!(buf, b"\x08\x09");
    /// } else {
    ///     assert_eq!(buf, b"\x09\x08");
    /// }
    /// ```
    ///
    /// # Panics
    ///
    /// This function panics if there is not enough remaining capacity in
    /// `self`.
    #[inline]
    fn put_u16_ne(&mut self, n: u16) {
        self.put_slice(&n.to_ne_bytes())
    }

    /// Writes a signed 16 bit integer to `self` in big-endian byte order.
    ///
    /// The current position is advanced by 2.
    ///
    /// # Examples
    ///
    /// ```
    /// use bytes::BufMut;
    ///
    /// let mut buf = vec![];
    /// buf.put_i16(0x0809);
    /// assert_eq!(buf, b"\x08\x09");
    /// ```
    ///
    /// # Panics
    ///
    /// This function panics if there is not enough remaining capacity in
    /// `self`.
    #[inline]
    fn put_i16(&mut self, n: i16) {
        self.put_slice(&n.to_be_bytes())
    }

    /// Writes a signed 16 bit integer to `self` in little-endian byte order.
    ///
    /// The current position is advanced by 2.
    ///
    /// # Examples
    ///
    /// ```
    /// use bytes::BufMut;
    ///
    /// let mut buf = vec![];
    /// buf.put_i16_le(0x0809);
    /// assert_eq!(buf, b"\x09\x08");
    /// ```
    ///
    /// # Panics
    ///
    /// This function panics if there is not enough remaining capacity in
    /// `self`.
    #[inline]
    fn put_i16_le(&mut self, n: i16) {
        self.put_slice(&n.to_le_bytes())
    }

    /// Writes a signed 16 bit integer to `self` in native-endian byte order.
    ///
    /// The current position is advanced by 2.
    ///
    /// # Examples
    ///
    /// ```
    /// use bytes::BufMut;
    ///
    /// let mut buf = vec![];
    /// buf.put_i16_ne(0x0809);
    /// if cfg!(target_endian = "big") {
    ///     assert_eq!(buf, b"\x08\x09");
    /// } else {
    ///     assert_eq!(buf, b"\x09\x08");
    /// }
    /// ```
    ///
    /// # Panics
    ///
    /// This function panics if there is not enough remaining capacity in
    /// `self`.
    #[inline]
    fn put_i16_ne(&mut self, n: i16) {
        self.put_slice(&n.to_ne_bytes())
    }

    /// Writes an unsigned 32 bit integer to `self` in big-endian byte order.
    ///
    /// The current position is advanced by 4.
    ///
    /// # Examples
    ///
    /// ```
    /// use bytes::BufMut;
    ///
    /// let mut buf = vec![];
    /// buf.put_u32(0x0809A0A1);
    /// assert_eq!(buf, b"\x08\x09\xA0\xA1");
    /// ```
    ///
    /// # Panics
    ///
    /// This function panics if there is not enough remaining capacity in
    /// `self`.
    #[inline]
    fn put_u32(&mut self, n: u32) {
        self.put_slice(&n.to_be_bytes())
    }

    /// Writes an unsigned 32 bit integer to `self` in little-endian byte order.
    ///
    /// The current position is advanced by 4.
    ///
    /// # Examples
    ///
    /// ```
    /// use bytes::BufMut;
    ///
    /// let mut buf = vec![];
    /// buf.put_u32_le(0x0809A0A1);
    /// assert_eq!(buf, b"\xA1\xA0\x09\x08");
    /// ```
    ///
    /// # Panics
    ///
    /// This function panics if there is not enough remaining capacity in
    /// `self`.
    #[inline]
    fn put_u32_le(&mut self, n: u32) {
        self.put_slice(&n.to_le_bytes())
    }

    /// Writes an unsigned 32 bit integer to `self` in native-endian byte order.
    ///
    /// The current position is advanced by 4.
    ///
    /// # Examples
    ///
    /// ```
    /// use bytes::BufMut;
    ///
    /// let mut buf = vec![];
    /// buf.put_u32_ne(0x0809A0A1);
    /// if cfg!(target_endian = "big") {
    ///     assert_eq!(buf, b"\x08\x09\xA0\xA1");
    /// } else {
    ///     assert_eq!(buf, b"\xA1\xA0\x09\x08");
    /// }
    /// ```
    ///
    /// # Panics
    ///
    /// This function panics if there is not enough remaining capacity in
    /// `self`.
    #[inline]
    fn put_u32_ne(&mut self, n: u32) {
        self.put_slice(&n.to_ne_bytes())
    }

    /// Writes a signed 32 bit integer to `self` in big-endian byte order.
    ///
    /// The current position is advanced by 4.
    ///
    /// # Examples
    ///
    /// ```
    /// use bytes::BufMut;
    ///
    /// let mut buf = vec![];
    /// buf.put_i32(0x0809A0A1);
    /// assert_eq!(buf, b"\x08\x09\xA0\xA1");
    /// ```
    ///
    /// # Panics
    ///
    /// This function panics if there is not enough remaining capacity in
    /// `self`.
    #[inline]
    fn put_i32(&mut self, n: i32) {
        self.put_slice(&n.to_be_bytes())
    }

    /// Writes a signed 32 bit integer to `self` in little-endian byte order.
    ///
    /// The current position is advanced by 4.
    ///
    /// # Examples
    ///
    /// ```
    /// use bytes::BufMut;
    ///
    /// let mut buf = vec![];
    /// buf.put_i32_le(0x0809A0A1);
    /// assert_eq!(buf, b"\xA1\xA0\x09\x08");
    /// ```
    ///
    /// # Panics
    ///
    /// This function panics if there is not enough remaining capacity in
    /// `self`.
    #[inline]
    fn put_i32_le(&mut self, n: i32) {
        self.put_slice(&n.to_le_bytes())
    }

    /// Writes a signed 32 bit integer to `self` in native-endian byte order.
    ///
    /// The current position is advanced by 4.
    ///
    /// # Examples
    ///
    /// ```
    /// use bytes::BufMut;
    ///
    /// let mut buf = vec![];
    /// buf.put_i32_ne(0x0809A0A1);
    /// if cfg!(target_endian = "big") {
    ///     assert_eq!(buf, b"\x08\x09\xA0\xA1");
    /// } else {
    ///     assert_eq!(buf, b"\xA1\xA0\x09\x08");
    /// }
    /// ```
    ///
    /// # Panics
    ///
    /// This function panics if there is not enough remaining capacity in
    /// `self`.
    #[inline]
    fn put_i32_ne(&mut self, n: i32) {
        self.put_slice(&n.to_ne_bytes())
    }

    /// Writes an unsigned 64 bit integer to `self` in the big-endian byte order.
    ///
    /// The current position is advanced by 8.
    ///
    /// # Examples
    ///
    /// ```
    /// use bytes::BufMut;
    ///
    /// let mut buf = vec![];
    /// buf.put_u64(0x0102030405060708);
    /// assert_eq!(buf, b"\x01\x02\x03\x04\x05\x06\x07\x08");
    /// ```
    ///
    /// # Panics
    ///
    /// This function panics if there is not enough remaining capacity in
    /// `self`.
    #[inline]
    fn put_u64(&mut self, n: u64) {
        self.put_slice(&n.to_be_bytes())
    }

    /// Writes an unsigned 64 bit integer to `self` in little-endian byte order.
    ///
    /// The current position is advanced by 8.
    ///
    /// # Examples
    ///
    /// ```
    /// use bytes::BufMut;
    ///
    /// let mut buf = vec![];
    /// buf.put_u64_le(0x0102030405060708);
    /// assert_eq!(buf, b"\x08\x07\x06\x05\x04\x03\x02\x01");
    /// ```
    ///
    /// # Panics
    ///
    /// This function panics if there is not enough remaining capacity in
    /// `self`.
    #[inline]
    fn put_u64_le(&mut self, n: u64) {
        self.put_slice(&n.to_le_bytes())
    }

    /// Writes an unsigned 64 bit integer to `self` in native-endian byte order.
    ///
    /// The current position is advanced by 8.
    ///
    /// # Examples
    ///
    /// ```
    /// use bytes::BufMut;
    ///
    /// let mut buf = vec![];
    /// buf.put_u64_ne(0x0102030405060708);
    /// if cfg!(target_endian = "big") {
    ///     assert_eq!(buf, b"\x01\x02\x03\x04\x05\x06\x07\x08");
    /// } else {
    ///     assert_eq!(buf, b"\x08\x07\x06\x05\x04\x03\x02\x01");
    /// }
    /// ```
    ///
    /// # Panics
    ///
    /// This function panics if there is not enough remaining capacity in
    /// `self`.
    #[inline]
    fn put_u64_ne(&mut self, n: u64) {
        self.put_slice(&n.to_ne_bytes())
    }

    /// Writes a signed 64 bit integer to `self` in the big-endian byte order.
    ///
    /// The current position is advanced by 8.
    ///
    /// # Examples
    ///
    /// ```
    /// use bytes::BufMut;
    ///
    /// let mut buf = vec![];
    /// buf.put_i64(0x0102030405060708);
    /// assert_eq!(buf, b"\x01\x02\x03\x04\x05\x06\x07\x08");
    /// ```
    ///
    /// # Panics
    ///
    /// This function panics if there is not enough remaining capacity in
    /// `self`.
    #[inline]
    fn put_i64(&mut self, n: i64) {
        self.put_slice(&n.to_be_bytes())
    }

    /// Writes a signed 64 bit integer to `self` in little-endian byte order.
    ///
    /// The current position is advanced by 8.
    ///
    /// # Examples
    ///
    /// ```
    /// use bytes::BufMut;
    ///
    /// let mut buf = vec![];
    /// buf.put_i64_le(0x0102030405060708);
    /// assert_eq!(buf, b"\x08\x07\x06\x05\x04\x03\x02\x01");
    /// ```
    ///
    /// # Panics
    ///
    /// This function panics if there is not enough remaining capacity in
    /// `self`.
    #[inline]
    fn put_i64_le(&mut self, n: i64) {
        self.put_slice(&n.to_le_bytes())
    }

    /// Writes a signed 64 bit integer to `self` in native-endian byte order.
    ///
    /// The current position is advanced by 8.
    ///
    /// # Examples
    ///
    /// ```
    /// use bytes::BufMut;
    ///
    /// let mut buf = vec![];
    /// buf.put_i64_ne(0x0102030405060708);
    /// if cfg!(target_endian = "big") {
    ///     assert_eq!(buf, b"\x01\x02\x03\x04\x05\x06\x07\x08");
    /// } else {
    ///     assert_eq!(buf, b"\x08\x07\x06\x05\x04\x03\x02\x01");
    /// }
    /// ```
    ///
    /// # Panics
    ///
    /// This function panics if there is not enough remaining capacity in
    /// `self`.
    #[inline]
    fn put_i64_ne(&mut self, n: i64) {
        self.put_slice(&n.to_ne_bytes())
    }

    /// Writes an unsigned 128 bit integer to `self` in the big-endian byte order.
    ///
    /// The current position is advanced by 16.
    ///
    /// # Examples
    ///
    /// ```
    /// use bytes::BufMut;
    ///
    /// let mut buf = vec![];
    /// buf.put_u128(0x01020304050607080910111213141516);
    /// assert_eq!(buf, b"\x01\x02\x03\x04\x05\x06\x07\x08\x09\x10\x11\x12\x13\x14\x15\x16");
    /// ```
    ///
    /// # Panics
    ///
    /// This function panics if there is not enough remaining capacity in
    /// `self`.
    #[inline]
    fn put_u128(&mut self, n: u128) {
        self.put_slice(&n.to_be_bytes())
    }

    /// Writes an unsigned 128 bit integer to `self` in little-endian byte order.
    ///
    /// The current position is advanced by 16.
    ///
    /// # Examples
    ///
    /// ```
    /// use bytes::BufMut;
    ///
    /// let mut buf = vec![];
    /// buf.put_u128_le(0x01020304050607080910111213141516);
    /// assert_eq!(buf, b"\x16\x15\x14\x13\x12\x11\x10\x09\x08\x07\x06\x05\x04\x03\x02\x01");
    /// ```
    ///
    /// # Panics
    ///
    /// This function panics if there is not enough remaining capacity in
    /// `self`.
    #[inline]
    fn put_u128_le(&mut self, n: u128) {
        self.put_slice(&n.to_le_bytes())
    }

    /// Writes an unsigned 128 bit integer to `self` in native-endian byte order.
    ///
    /// The current position is advanced by 16.
    ///
    /// # Examples
    ///
    /// ```
    /// use bytes::BufMut;
    ///
    /// let mut buf = vec![];
    /// buf.put_u128_ne(0x01020304050607080910111213141516);
    /// if cfg!(target_endian = "big") {
    ///     assert_eq!(buf, b"\x01\x02\x03\x04\x05\x06\x07\x08\x09\x10\x11\x12\x13\x14\x15\x16");
    /// } else {
    ///     assert_eq!(buf, b"\x16\x15\x14\x13\x12\x11\x10\x09\x08\x07\x06\x05\x04\x03\x02\x01");
    /// }
    /// ```
    ///
    /// # Panics
    ///
    /// This function panics if there is not enough remaining capacity in
    /// `self`.
    #[inline]
    fn put_u128_ne(&mut self, n: u128) {
        self.put_slice(&n.to_ne_bytes())
    }

    /// Writes a signed 128 bit integer to `self` in the big-endian byte order.
    ///
    /// The current position is advanced by 16.
    ///
    /// # Examples
    ///
    /// ```
    /// use bytes::BufMut;
    ///
    /// let mut buf = vec![];
    /// buf.put_i128(0x01020304050607080910111213141516);
    /// assert_eq!(buf, b"\x01\x02\x03\x04\x05\x06\x07\x08\x09\x10\x11\x12\x13\x14\x15\x16");
    /// ```
    ///
    /// # Panics
    ///
    /// This function panics if there is not enough remaining capacity in
    /// `self`.
    #[inline]
    fn put_i128(&mut self, n: i128) {
        self.put_slice(&n.to_be_bytes())
    }

    /// Writes a signed 128 bit integer to `self` in little-endian byte order.
    ///
    /// The current position is advanced by 16.
    ///
    /// # Examples
    ///
    /// ```
    /// use bytes::BufMut;
    ///
    /// let mut buf = vec![];
    /// buf.put_i128_le(0x01020304050607080910111213141516);
    /// assert_eq!(buf, b"\x16\x15\x14\x13\x12\x11\x10\x09\x08\x07\x06\x05\x04\x03\x02\x01");
    /// ```
    ///
    /// # Panics
    ///
    /// This function panics if there is not enough remaining capacity in
    /// `self`.
    #[inline]
    fn put_i128_le(&mut self, n: i128) {
        self.put_slice(&n.to_le_bytes())
    }

    /// Writes a signed 128 bit integer to `self` in native-endian byte order.
    ///
    /// The current position is advanced by 16.
    ///
    /// # Examples
    ///
    /// ```
    /// use bytes::BufMut;
    ///
    /// let mut buf = vec![];
    /// buf.put_i128_ne(0x01020304050607080910111213141516);
    /// if cfg!(target_endian = "big") {
    ///     assert_eq!(buf, b"\x01\x02\x03\x04\x05\x06\x07\x08\x09\x10\x11\x12\x13\x14\x15\x16");
    /// } else {
    ///     assert_eq!(buf, b"\x16\x15\x14\x13\x12\x11\x10\x09\x08\x07\x06\x05\x04\x03\x02\x01");
    /// }
    /// ```
    ///
    /// # Panics
    ///
    /// This function panics if there is not enough remaining capacity in
    /// `self`.
    #[inline]
    fn put_i128_ne(&mut self, n: i128) {
        self.put_slice(&n.to_ne_bytes())
    }

    /// Writes an unsigned n-byte integer to `self` in big-endian byte order.
    ///
    /// The current position is advanced by `nbytes`.
    ///
    /// # Examples
    ///
    /// ```
    /// use bytes::BufMut;
    ///
    /// let mut buf = vec![];
    /// buf.put_uint(0x010203, 3);
    /// assert_eq!(buf, b"\x01\x02\x03");
    /// ```
    ///
    /// # Panics
    ///
    /// This function panics if there is not enough remaining capacity in
    /// `self` or if `nbytes` is greater than 8.
    #[inline]
    fn put_uint(&mut self, n: u64, nbytes: usize) {
        let start = match mem::size_of_val(&n).checked_sub(nbytes) {
            Some(start) => start,
            None => panic_does_not_fit(nbytes, mem::size_of_val(&n)),
        };

        self.put_slice(&n.to_be_bytes()[start..]);
    }

    /// Writes an unsigned n-byte integer to `self` in the little-endian byte order.
    ///
    /// The current position is advanced by `nbytes`.
    ///
    /// # Examples
    ///
    /// ```
    /// use bytes::BufMut;
    ///
    /// let mut buf = vec![];
    /// buf.put_uint_le(0x010203, 3);
    /// assert_eq!(buf, b"\x03\x02\x01");
    /// ```
    ///
    /// # Panics
    ///
    /// This function panics if there is not enough remaining capacity in
    /// `self` or if `nbytes` is greater than 8.
    #[inline]
    fn put_uint_le(&mut self, n: u64, nbytes: usize) {
        let slice = n.to_le_bytes();
        let slice = match slice.get(..nbytes) {
            Some(slice) => slice,
            None => panic_does_not_fit(nbytes, slice.len()),
        };

        self.put_slice(slice);
    }

    /// Writes an unsigned n-byte integer to `self` in the native-endian byte order.
    ///
    /// The current position is advanced by `nbytes`.
    ///
    /// # Examples
    ///
    /// ```
    /// use bytes::BufMut;
    ///
    /// let mut buf = vec![];
    /// buf.put_uint_ne(0x010203, 3);
    /// if cfg!(target_endian = "big") {
    ///     assert_eq!(buf, b"\x01\x02\x03");
    /// } else {
    ///     assert_eq!(buf, b"\x03\x02\x01");
    /// }
    /// ```
    ///
    /// # Panics
    ///
    /// This function panics if there is not enough remaining capacity in
    /// `self` or if `nbytes` is greater than 8.
    #[inline]
    fn put_uint_ne(&mut self, n: u64, nbytes: usize) {
        if cfg!(target_endian = "big") {
            self.put_uint(n, nbytes)
        } else {
            self.put_uint_le(n, nbytes)
        }
    }

    /// Writes low `nbytes` of a signed integer to `self` in big-endian byte order.
    ///
    /// The current position is advanced by `nbytes`.
    ///
    /// # Examples
    ///
    /// ```
    /// use bytes::BufMut;
    ///
    /// let mut buf = vec![];
    /// buf.put_int(0x0504010203, 3);
    /// assert_eq!(buf, b"\x01\x02\x03");
    /// ```
    ///
    /// # Panics
    ///
    /// This function panics if there is not enough remaining capacity in
    /// `self` or if `nbytes` is greater than 8.
    #[inline]
    fn put_int(&mut self, n: i64, nbytes: usize) {
        let start = match mem::size_of_val(&n).checked_sub(nbytes) {
            Some(start) => start,
            None => panic_does_not_fit(nbytes, mem::size_of_val(&n)),
        };

        self.put_slice(&n.to_be_bytes()[start..]);
    }

    /// Writes low `nbytes` of a signed integer to `self` in little-endian byte order.
    ///
    /// The current position is advanced by `nbytes`.
    ///
    /// # Examples
    ///
    /// ```
    /// use bytes::BufMut;
    ///
    /// let mut buf = vec![];
    /// buf.put_int_le(0x0504010203, 3);
    /// assert_eq!(buf, b"\x03\x02\x01");
    /// ```
    ///
    /// # Panics
    ///
    /// This function panics if there is not enough remaining capacity in
    /// `self` or if `nbytes` is greater than 8.
    #[inline]
    fn put_int_le(&mut self, n: i64, nbytes: usize) {
        let slice = n.to_le_bytes();
        let slice = match slice.get(..nbytes) {
            Some(slice) => slice,
            None => panic_does_not_fit(nbytes, slice.len()),
        };

        self.put_slice(slice);
    }

    /// Writes low `nbytes` of a signed integer to `self` in native-endian byte order.
    ///
    /// The current position is advanced by `nbytes`.
    ///
    /// # Examples
    ///
    /// ```
    /// use bytes::BufMut;
    ///
    /// let mut buf = vec![];
    /// buf.put_int_ne(0x010203, 3);
    /// if cfg!(target_endian = "big") {
    ///     assert_eq!(buf, b"\x01\x02\x03");
    /// } else {
    ///     assert_eq!(buf, b"\x03\x02\x01");
    /// }
    /// ```
    ///
    /// # Panics
    ///
    /// This function panics if there is not enough remaining capacity in
    /// `self` or if `nbytes` is greater than 8.
    #[inline]
    fn put_int_ne(&mut self, n: i64, nbytes: usize) {
        if cfg!(target_endian = "big") {
            self.put_int(n, nbytes)
        } else {
            self.put_int_le(n, nbytes)
        }
    }

    /// Writes an IEEE754 single-precision (4 bytes) floating point number to
    /// `self` in big-endian byte order.
    ///
    /// The current position is advanced by 4.
    ///
    /// # Examples
    ///
    /// ```
    /// use bytes::BufMut;
    ///
    /// let mut buf = vec![];
    /// buf.put_f32(1.2f32);
    /// assert_eq!(buf, b"\x3F\x99\x99\x9A");
    /// ```
    ///
    /// # Panics
    ///
    /// This function panics if there is not enough remaining capacity in
    /// `self`.
    #[inline]
    fn put_f32(&mut self, n: f32) {
        self.put_u32(n.to_bits());
    }

    /// Writes an IEEE754 single-precision (4 bytes) floating point number to
    /// `self` in little-endian byte order.
    ///
    /// The current position is advanced by 4.
    ///
    /// # Examples
    ///
    /// ```
    /// use bytes::BufMut;
    ///
    /// let mut buf = vec![];
    /// buf.put_f32_le(1.2f32);
    /// assert_eq!(buf, b"\x9A\x99\x99\x3F");
    /// ```
    ///
    /// # Panics
    ///
    /// This function panics if there is not enough remaining capacity in
    /// `self`.
    #[inline]
    fn put_f32_le(&mut self, n: f32) {
        self.put_u32_le(n.to_bits());
    }

    /// Writes an IEEE754 single-precision (4 bytes) floating point number to
    /// `self` in native-endian byte order.
    ///
    /// The current position is advanced by 4.
    ///
    /// # Examples
    ///
    /// ```
    /// use bytes::BufMut;
    ///
    /// let mut buf = vec![];
    /// buf.put_f32_ne(1.2f32);
    /// if cfg!(target_endian = "big") {
    ///     assert_eq!(buf, b"\x3F\x99\x99\x9A");
    /// } else {
    ///     assert_eq!(buf, b"\x9A\x99\x99\x3F");
    /// }
    /// ```
    ///
    /// # Panics
    ///
    /// This function panics if there is not enough remaining capacity in
    /// `self`.
    #[inline]
    fn put_f32_ne(&mut self, n: f32) {
        self.put_u32_ne(n.to_bits());
    }

    /// Writes an IEEE754 double-precision (8 bytes) floating point number to
    /// `self` in big-endian byte order.
    ///
    /// The current position is advanced by 8.
    ///
    /// # Examples
    ///
    /// ```
    /// use bytes::BufMut;
    ///
    /// let mut buf = vec![];
    /// buf.put_f64(1.2f64);
    /// assert_eq!(buf, b"\x3F\xF3\x33\x33\x33\x33\x33\x33");
    /// ```
    ///
    /// # Panics
    ///
    /// This function panics if there is not enough remaining capacity in
    /// `self`.
    #[inline]
    fn put_f64(&mut self, n: f64) {
        self.put_u64(n.to_bits());
    }

    /// Writes an IEEE754 double-precision (8 bytes) floating point number to
    /// `self` in little-endian byte order.
    ///
    /// The current position is advanced by 8.
    ///
    /// # Examples
    ///
    /// ```
    /// use bytes::BufMut;
    ///
    /// let mut buf = vec![];
    /// buf.put_f64_le(1.2f64);
    /// assert_eq!(buf, b"\x33\x33\x33\x33\x33\x33\xF3\x3F");
    /// ```
    ///
    /// # Panics
    ///
    /// This function panics if there is not enough remaining capacity in
    /// `self`.
    #[inline]
    fn put_f64_le(&mut self, n: f64) {
        self.put_u64_le(n.to_bits());
    }

    /// Writes an IEEE754 double-precision (8 bytes) floating point number to
    /// `self` in native-endian byte order.
    ///
    /// The current position is advanced by 8.
    ///
    /// # Examples
    ///
    /// ```
    /// use bytes::BufMut;
    ///
    /// let mut buf = vec![];
    /// buf.put_f64_ne(1.2f64);
    /// if cfg!(target_endian = "big") {
    ///     assert_eq!(buf, b"\x3F\xF3\x33\x33\x33\x33\x33\x33");
    /// } else {
    ///     assert_eq!(buf, b"\x33\x33\x33\x33\x33\x33\xF3\x3F");
    /// }
    /// ```
    ///
    /// # Panics
    ///
    /// This function panics if there is not enough remaining capacity in
    /// `self`.
    #[inline]
    fn put_f64_ne(&mut self, n: f64) {
        self.put_u64_ne(n.to_bits());
    }

    /// Creates an adaptor which can write at most `limit` bytes to `self`.
    ///
    /// # Examples
    ///
    /// ```
    /// use bytes::BufMut;
    ///
    /// let arr = &mut [0u8; 128][..];
    /// assert_eq!(arr.remaining_mut(), 128);
    ///
    /// let dst = arr.limit(10);
    /// assert_eq!(dst.remaining_mut(), 10);
    /// ```
    #[inline]
    fn limit(self, limit: usize) -> Limit<Self>
    where
        Self: Sized,
    {
        limit::new(self, limit)
    }

    /// Creates an adaptor which implements the `Write` trait for `self`.
    ///
    /// This function returns a new value which implements `Write` by adapting
    /// the `Write` trait functions to the `BufMut` trait functions. Given that
    /// `BufMut` operations are infallible, none of the `Write` functions will
    /// return with `Err`.
    ///
    /// # Examples
    ///
    /// ```
    /// use bytes::BufMut;
    /// use std::io::Write;
    ///
    /// let mut buf = vec![].writer();
    ///
    /// let num = buf.write(&b"hello world"[..]).unwrap();
    /// assert_eq!(11, num);
    ///
    /// let buf = buf.into_inner();
    ///
    /// assert_eq!(*buf, b"hello world"[..]);
    /// ```
    #[cfg(feature = "std")]
    #[cfg_attr(docsrs, doc(cfg(feature = "std")))]
    #[inline]
    fn writer(self) -> Writer<Self>
    where
        Self: Sized,
    {
        writer::new(self)
    }

    /// Creates an adapter which will chain this buffer with another.
    ///
    /// The returned `BufMut` instance will first write to all bytes from
    /// `self`. Afterwards, it will write to `next`.
    ///
    /// # Examples
    ///
    /// ```
    /// use bytes::BufMut;
    ///
    /// let mut a = [0u8; 5];
    /// let mut b = [0u8; 6];
    ///
    /// let mut chain = (&mut a[..]).chain_mut(&mut b[..]);
    ///
    /// chain.put_slice(b"hello world");
    ///
    /// assert_eq!(&a[..], b"hello");
    /// assert_eq!(&b[..], b" world");
    /// ```
    #[inline]
    fn chain_mut<U: BufMut>(self, next: U) -> Chain<Self, U>
    where
        Self: Sized,
    {
        Chain::new(self, next)
    }
}

macro_rules! deref_forward_bufmut {
    () => {
        #[inline]
        fn remaining_mut(&self) -> usize {
            (**self).remaining_mut()
        }

        #[inline]
        fn chunk_mut(&mut self) -> &mut UninitSlice {
            (**self).chunk_mut()
        }

        #[inline]
        unsafe fn advance_mut(&mut self, cnt: usize) {
            (**self).advance_mut(cnt)
        }

        #[inline]
        fn put_slice(&mut self, src: &[u8]) {
            (**self).put_slice(src)
        }

        #[inline]
        fn put_u8(&mut self, n: u8) {
            (**self).put_u8(n)
        }

        #[inline]
        fn put_i8(&mut self, n: i8) {
            (**self).put_i8(n)
        }

        #[inline]
        fn put_u16(&mut self, n: u16) {
            (**self).put_u16(n)
        }

        #[inline]
        fn put_u16_le(&mut self, n: u16) {
            (**self).put_u16_le(n)
        }

        #[inline]
        fn put_u16_ne(&mut self, n: u16) {
            (**self).put_u16_ne(n)
        }

        #[inline]
        fn put_i16(&mut self, n: i16) {
            (**self).put_i16(n)
        }

        #[inline]
        fn put_i16_le(&mut self, n: i16) {
            (**self).put_i16_le(n)
        }

        #[inline]
        fn put_i16_ne(&mut self, n: i16) {
            (**self).put_i16_ne(n)
        }

        #[inline]
        fn put_u32(&mut self, n: u32) {
            (**self).put_u32(n)
        }

        #[inline]
        fn put_u32_le(&mut self, n: u32) {
            (**self).put_u32_le(n)
        }

        #[inline]
        fn put_u32_ne(&mut self, n: u32) {
            (**self).put_u32_ne(n)
        }

        #[inline]
        fn put_i32(&mut self, n: i32) {
            (**self).put_i32(n)
        }

        #[inline]
        fn put_i32_le(&mut self, n: i32) {
            (**self).put_i32_le(n)
        }

        #[inline]
        fn put_i32_ne(&mut self, n: i32) {
            (**self).put_i32_ne(n)
        }

        #[inline]
        fn put_u64(&mut self, n: u64) {
            (**self).put_u64(n)
        }

        #[inline]
        fn put_u64_le(&mut self, n: u64) {
            (**self).put_u64_le(n)
        }

        #[inline]
        fn put_u64_ne(&mut self, n: u64) {
            (**self).put_u64_ne(n)
        }

        #[inline]
        fn put_i64(&mut self, n: i64) {
            (**self).put_i64(n)
        }

        #[inline]
        fn put_i64_le(&mut self, n: i64) {
            (**self).put_i64_le(n)
        }

        #[inline]
        fn put_i64_ne(&mut self, n: i64) {
            (**self).put_i64_ne(n)
        }
    };
}

unsafe impl<T: BufMut + ?Sized> BufMut for &mut T {
    deref_forward_bufmut!();
}

unsafe impl<T: BufMut + ?Sized> BufMut for Box<T> {
    deref_forward_bufmut!();
}

unsafe impl BufMut for &mut [u8] {
    #[inline]
    fn remaining_mut(&self) -> usize {
        self.len()
    }

    #[inline]
    fn chunk_mut(&mut self) -> &mut UninitSlice {
        UninitSlice::new(self)
    }

    #[inline]
    unsafe fn advance_mut(&mut self, cnt: usize) {
        if self.len() < cnt {
            panic_advance(&TryGetError {
                requested: cnt,
                available: self.len(),
            });
        }

        // Lifetime dance taken from `impl Write for &mut [u8]`.
        let (_, b) = core::mem::take(self).split_at_mut(cnt);
        *self = b;
    }

    #[inline]
    fn put_slice(&mut self, src: &[u8]) {
        if self.len() < src.len() {
            panic_advance(&TryGetError {
                requested: src.len(),
                available: self.len(),
            });
        }

        self[..src.len()].copy_from_slice(src);
        // SAFETY: We just initialized `src.len()` bytes.
        unsafe { self.advance_mut(src.len()) };
    }

    #[inline]
    fn put_bytes(&mut self, val: u8, cnt: usize) {
        if self.len() < cnt {
            panic_advance(&TryGetError {
                requested: cnt,
                available: self.len(),
            });
        }

        // SAFETY: We just checked that the pointer is valid for `cnt` bytes.
        unsafe {
            ptr::write_bytes(self.as_mut_ptr(), val, cnt);
            self.advance_mut(cnt);
        }
    }
}

unsafe impl BufMut for &mut [core::mem::MaybeUninit<u8>] {
    #[inline]
    fn remaining_mut(&self) -> usize {
        self.len()
    }

    #[inline]
    fn chunk_mut(&mut self) -> &mut UninitSlice {
        UninitSlice::uninit(self)
    }

    #[inline]
    unsafe fn advance_mut(&mut self, cnt: usize) {
        if self.len() < cnt {
            panic_advance(&TryGetError {
                requested: cnt,
                available: self.len(),
            });
        }

        // Lifetime dance taken from `impl Write for &mut [u8]`.
        let (_, b) = core::mem::take(self).split_at_mut(cnt);
        *self = b;
    }

    #[inline]
    fn put_slice(&mut self, src: &[u8]) {
        if self.len() < src.len() {
            panic_advance(&TryGetError {
                requested: src.len(),
                available: self.len(),
            });
        }

        // SAFETY: We just checked that the pointer is valid for `src.len()` bytes.
        unsafe {
            ptr::copy_nonoverlapping(src.as_ptr(), self.as_mut_ptr().cast(), src.len());
            self.advance_mut(src.len());
        }
    }

    #[inline]
    fn put_bytes(&mut self, val: u8, cnt: usize) {
        if self.len() < cnt {
            panic_advance(&TryGetError {
                requested: cnt,
                available: self.len(),
            });
        }

        // SAFETY: We just checked that the pointer is valid for `cnt` bytes.
        unsafe {
            ptr::write_bytes(self.as_mut_ptr() as *mut u8, val, cnt);
            self.advance_mut(cnt);
        }
    }
}

unsafe impl BufMut for Vec<u8> {
    #[inline]
    fn remaining_mut(&self) -> usize {
        // A vector can never have more than isize::MAX bytes
        isize::MAX as usize - self.len()
    }

    #[inline]
    unsafe fn advance_mut(&mut self, cnt: usize) {
        let len = self.len();
        let remaining = self.capacity() - len;

        if remaining < cnt {
            panic_advance(&TryGetError {
                requested: cnt,
                available: remaining,
            });
        }

        // Addition will not overflow since the sum is at most the capacity.
        self.set_len(len + cnt);
    }

    #[inline]
    fn chunk_mut(&mut self) -> &mut UninitSlice {
        if self.capacity() == self.len() {
            self.reserve(64); // Grow the vec
        }

        let cap = self.capacity();
        let len = self.len();

        let ptr = self.as_mut_ptr();
        // SAFETY: Since `ptr` is valid for `cap` bytes, `ptr.add(len)` must be
        // valid for `cap - len` bytes. The subtraction will not underflow since
        // `len <= cap`.
        unsafe { UninitSlice::from_raw_parts_mut(ptr.add(len), cap - len) }
    }

    // Specialize these methods so they can skip checking `remaining_mut`
    // and `advance_mut`.
    #[inline]
    fn put<T: super::Buf>(&mut self, mut src: T)
    where
        Self: Sized,
    {
        // In case the src isn't contiguous, reserve upfront.
        self.reserve(src.remaining());

        while src.has_remaining() {
            let s = src.chunk();
            let l = s.len();
            self.extend_from_slice(s);
            src.advance(l);
        }
    }

    #[inline]
    fn put_slice(&mut self, src: &[u8]) {
        self.extend_from_slice(src);
    }

    #[inline]
    fn put_bytes(&mut self, val: u8, cnt: usize) {
        // If the addition overflows, then the `resize` will fail.
        let new_len = self.len().saturating_add(cnt);
        self.resize(new_len, val);
    }
}

// The existence of this function makes the compiler catch if the BufMut
// trait is "object-safe" or not.
fn _assert_trait_object(_b: &dyn BufMut) {}
