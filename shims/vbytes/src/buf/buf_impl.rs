#[cfg(feature = "std")]
use crate::buf::{reader, Reader};
use crate::buf::{take, Chain, Take};
#[cfg(feature = "std")]
use crate::{min_u64_usize, saturating_sub_usize_u64};
use crate::{panic_advance, panic_does_not_fit, TryGetError};

#[cfg(feature = "std")]
use std::io::IoSlice;

use alloc::boxed::Box;

macro_rules! buf_try_get_impl {
    ($this:ident, $typ:tt::$conv:tt) => {{
        const SIZE: usize = core::mem::size_of::<$typ>();

        if $this.remaining() < SIZE {
            return Err(TryGetError {
                requested: SIZE,
                available: $this.remaining(),
            });
        }

        // try to convert directly from the bytes
        // this Option<ret> trick is to avoid keeping a borrow on self
        // when advance() is called (mut borrow) and to call bytes() only once
        let ret = $this
            .chunk()
            .get(..SIZE)
            .map(|src| unsafe { $typ::$conv(*(src as *const _ as *const [_; SIZE])) });

        if let Some(ret) = ret {
            // if the direct conversion was possible, advance and return
            $this.advance(SIZE);
            return Ok(ret);
        } else {
            // if not we copy the bytes in a temp buffer then convert
            let mut buf = [0; SIZE];
            $this.copy_to_slice(&mut buf); // (do the advance)
            return Ok($typ::$conv(buf));
        }
    }};
    (le => $this:ident, $typ:tt, $len_to_read:expr) => {{
        const SIZE: usize = core::mem::size_of::<$typ>();

        // The same trick as above does not improve the best case speed.
        // It seems to be linked to the way the method is optimised by the compiler
        let mut buf = [0; SIZE];

        let subslice = match buf.get_mut(..$len_to_read) {
            Some(subslice) => subslice,
            None => panic_does_not_fit(SIZE, $len_to_read),
        };

        $this.try_copy_to_slice(subslice)?;
        return Ok($typ::from_le_bytes(buf));
    }};
    (be => $this:ident, $typ:tt, $len_to_read:expr) => {{
        const SIZE: usize = core::mem::size_of::<$typ>();

        let slice_at = match SIZE.checked_sub($len_to_read) {
            Some(slice_at) => slice_at,
            None => panic_does_not_fit(SIZE, $len_to_read),
        };

        let mut buf = [0; SIZE];
        $this.try_copy_to_slice(&mut buf[slice_at..])?;
        return Ok($typ::from_be_bytes(buf));
    }};
}

macro_rules! buf_get_impl {
    ($this:ident, $typ:tt::$conv:tt) => {{
        return (|| buf_try_get_impl!($this, $typ::$conv))()
            .unwrap_or_else(|error| panic_advance(&error));
    }};
    (le => $this:ident, $typ:tt, $len_to_read:expr) => {{
        return (|| buf_try_get_impl!(le => $this, $typ, $len_to_read))()
            .unwrap_or_else(|error| panic_advance(&error));
    }};
    (be => $this:ident, $typ:tt, $len_to_read:expr) => {{
        return (|| buf_try_get_impl!(be => $this, $typ, $len_to_read))()
            .unwrap_or_else(|error| panic_advance(&error));
    }};
}

// https://en.wikipedia.org/wiki/Sign_extension
fn sign_extend(val: u64, nbytes: usize) -> i64 {
    if nbytes == 0 {
        // avoid `val << 64` panic
        0
    } else {
        let shift = (8 - nbytes) * 8;
        (val << shift) as i64 >> shift
    }
}

/// Read bytes from a buffer.
///
/// A buffer stores bytes in memory such that read operations are infallible.
/// The underlying storage may or may not be in contiguous memory. A `Buf` value
/// is a cursor into the buffer. Reading from `Buf` advances the cursor
/// position. It can be thought of as an efficient `Iterator` for collections of
/// bytes.
///
/// The simplest `Buf` is a `&[u8]`.
///
/// ```
/// use bytes::Buf;
///
/// let mut buf = &b"hello world"[..];
///
/// assert_eq!(b'h', buf.get_u8());
/// assert_eq!(b'e', buf.get_u8());
/// assert_eq!(b'l', buf.get_u8());
///
/// let mut rest = [0; 8];
/// buf.copy_to_slice(&mut rest);
///
/// assert_eq!(&rest[..], &b"lo world"[..]);
/// ```
pub trait Buf {
    /// Returns the number of bytes between the current position and the end of
    /// the buffer.
    ///
    /// This value is greater than or equal to the length of the slice returned
    /// by `chunk()`.
    ///
    /// # Examples
    ///
    /// ```
    /// use bytes::Buf;
    ///
    /// let mut buf = &b"hello world"[..];
    ///
    /// assert_eq!(buf.remaining(), 11);
    ///
    /// buf.get_u8();
    ///
    /// assert_eq!(buf.remaining(), 10);
    /// ```
    ///
    /// # Implementer notes
    ///
    /// Implementations of `remaining` should ensure that the return value does
    /// not change unless a call is made to `advance` or any other function that
    /// is documented to change the `Buf`'s current position.
    fn remaining(&self) -> usize;

    /// Returns a slice starting at the current position and of length between 0
    /// and `Buf::remaining()`. Note that this *can* return a shorter slice (this
    /// allows non-continuous internal representation).
    ///
    /// This is a lower level function. Most operations are done with other
    /// functions.
    ///
    /// # Examples
    ///
    /// ```
    /// use bytes::Buf;
    ///
    /// let mut buf = &b"hello world"[..];
    ///
    /// assert_eq!(buf.chunk(), &b"hello world"[..]);
    ///
    /// buf.advance(6);
    ///
    /// assert_eq!(buf.chunk(), &b"world"[..]);
    /// ```
    ///
    /// # Implementer notes
    ///
    /// This function should never panic. `chunk()` should return an empty
    /// slice **if and only if** `remaining()` returns 0. In other words,
    /// `chunk()` returning an empty slice implies that `remaining()` will
    /// return 0 and `remaining()` returning 0 implies that `chunk()` will
    /// return an empty slice.
    // The `chunk` method was previously called `bytes`. This alias makes the rename
    // more easily discoverable.
    #[cfg_attr(docsrs, doc(alias = "bytes"))]
    fn chunk(&self) -> &[u8];

    /// Fills `dst` with potentially multiple slices starting at `self`'s
    /// current position.
    ///
    /// If the `Buf` is backed by disjoint slices of bytes, `chunk_vectored` enables
    /// fetching more than one slice at once. `dst` is a slice of `IoSlice`
    /// references, enabling the slice to be directly used with [`writev`]
    /// without any further conversion. The sum of the lengths of all the
    /// buffers written to `dst` will be less than or equal to `Buf::remaining()`.
    ///
    /// The entries in `dst` will be overwritten, but the data **contained** by
    /// the slices **will not** be modified. The return value is the number of
    /// slices written to `dst`. If `Buf::remaining()` is non-zero, then this
    /// writes at least one non-empty slice to `dst`.
    ///
    /// This is a lower level function. Most operations are done with other
    /// functions.
    ///
    /// # Implementer notes
    ///
    /// This function should never panic. Once the end of the buffer is reached,
    /// i.e., `Buf::remaining` returns 0, calls to `chunk_vectored` must return 0
    /// without mutating `dst`.
    ///
    /// Implementations should also take care to properly handle being called
    /// with `dst` being a zero length slice.
    ///
    /// [`writev`]: http://man7.org/linux/man-pages/man2/readv.2.html
    #[cfg(feature = "std")]
    #[cfg_attr(docsrs, doc(cfg(feature = "std")))]
    fn chunks_vectored<'a>(&'a self, dst: &mut [IoSlice<'a>]) -> usize {
        if dst.is_empty() {
            return 0;
        }

        if self.has_remaining() {
            dst[0] = IoSlice::new(self.chunk());
            1
        } else {
            0
        }
    }

    /// Advance the internal cursor of the Buf
    ///
    /// The next call to `chunk()` will return a slice starting `cnt` bytes
    /// further into the underlying buffer.
    ///
    /// # Examples
    ///
    /// ```
    /// use bytes::Buf;
    ///
    /// let mut buf = &b"hello world"[..];
    ///
    /// assert_eq!(buf.chunk(), &b"hello world"[..]);
    ///
    /// buf.advance(6);
    ///
    /// assert_eq!(buf.chunk(), &b"world"[..]);
    /// ```
    ///
    /// # Panics
    ///
    /// This function **may** panic if `cnt > self.remaining()`.
    ///
    /// # Implementer notes
    ///
    /// It is recommended for implementations of `advance` to panic if `cnt >
    /// self.remaining()`. If the implementation does not panic, the call must
    /// behave as if `cnt == self.remaining()`.
    ///
    /// A call with `cnt == 0` should never panic and be a no-op.
    fn advance(&mut self, cnt: usize);

    /// Returns true if there are any more bytes to consume
    ///
    /// This is equivalent to `self.remaining() != 0`.
    ///
    /// # Examples
    ///
    /// ```
    /// use bytes::Buf;
    ///
    /// let mut buf = &b"a"[..];
    ///
    /// assert!(buf.has_remaining());
    ///
    /// buf.get_u8();
    ///
    /// assert!(!buf.has_remaining());
    /// ```
    fn has_remaining(&self) -> bool {
        self.remaining() > 0
    }

    /// Copies bytes from `self` into `dst`.
    ///
    /// The cursor is advanced by the number of bytes copied. `self` must have
    /// enough remaining bytes to fill `dst`.
    ///
    /// # Examples
    ///
    /// ```
    /// use bytes::Buf;
    ///
    /// let mut buf = &b"hello world"[..];
    /// let mut dst = [0; 5];
    ///
    /// buf.copy_to_slice(&mut dst);
    /// assert_eq!(&b"hello"[..], &dst);
    /// assert_eq!(6, buf.remaining());
    /// ```
    ///
    /// # Panics
    ///
    /// This function panics if `self.remaining() < dst.len()`.
    fn copy_to_slice(&mut self, dst: &mut [u8]) {
        self.try_copy_to_slice(dst)
            .unwrap_or_else(|error| panic_advance(&error));
    }

    /// Gets an unsigned 8 bit integer from `self`.
    ///
    /// The current position is advanced by 1.
    ///
    /// # Examples
    ///
    /// ```
    /// use bytes::Buf;
    ///
    /// let mut buf = &b"\x08 hello"[..];
    /// assert_eq!(8, buf.get_u8());
    /// ```
    ///
    /// # Panics
    ///
    /// This function panics if there is no more remaining data in `self`.
    fn get_u8(&mut self) -> u8 {
        if self.remaining() < 1 {
            panic_advance(&TryGetError {
                requested: 1,
                available: 0,
            })
        }
        let ret = self.chunk()[0];
        self.advance(1);
        ret
    }

    /// Gets a signed 8 bit integer from `self`.
    ///
    /// The current position is advanced by 1.
    ///
    /// # Examples
    ///
    /// ```
    /// use bytes::Buf;
    ///
    /// let mut buf = &b"\x08 hello"[..];
    /// assert_eq!(8, buf.get_i8());
    /// ```
    ///
    /// # Panics
    ///
    /// This function panics if there is no more remaining data in `self`.
    fn get_i8(&mut self) -> i8 {
        if self.remaining() < 1 {
            panic_advance(&TryGetError {
                requested: 1,
                available: 0,
            });
        }
        let ret = self.chunk()[0] as i8;
        self.advance(1);
        ret
    }

    /// Gets an unsigned 16 bit integer from `self` in big-endian byte order.
    ///
    /// The current position is advanced by 2.
    ///
    /// # Examples
    ///
    /// ```
    /// use bytes::Buf;
    ///
    /// let mut buf = &b"\x08\x09 hello"[..];
    /// assert_eq!(0x0809, buf.get_u16());
    /// ```
    ///
    /// # Panics
    ///
    /// This function panics if there is not enough remaining data in `self`.
    fn get_u16(&mut self) -> u16 {
        buf_get_impl!(self, u16::from_be_bytes);
    }

    /// Gets an unsigned 16 bit integer from `self` in little-endian byte order.
    ///
    /// The current position is advanced by 2.
    ///
    /// # Examples
    ///
    /// ```
    /// use bytes::Buf;
    ///
    /// let mut buf = &b"\x09\x08 hello"[..];
    /// assert_eq!(0x0809, buf.get_u16_le());
    /// ```
    ///
    /// # Panics
    ///
    /// This function panics if there is not enough remaining data in `self`.
    fn get_u16_le(&mut self) -> u16 {
        buf_get_impl!(self, u16::from_le_bytes);
    }

    /// Gets an unsigned 16 bit integer from `self` in native-endian byte order.
    ///
    /// The current position is advanced by 2.
    ///
    /// # Examples
    ///
    /// ```
    /// use bytes::Buf;
    ///
    /// let mut buf: &[u8] = match cfg!(target_endian = "big") {
    ///     true => b"\x08\x09 hello",
    ///     false => b"\x09\x08 hello",
    /// };
    /// assert_eq!(0x0809, buf.get_u16_ne());
    /// ```
    ///
    /// # Panics
    ///
    /// This function panics if there is not enough remaining data in `self`.
    fn get_u16_ne(&mut self) -> u16 {
        buf_get_impl!(self, u16::from_ne_bytes);
    }

    /// Gets a signed 16 bit integer from `self` in big-endian byte order.
    ///
    /// The current position is advanced by 2.
    ///
    /// # Examples
    ///
    /// ```
    /// use bytes::Buf;
    ///
    /// let mut buf = &b"\x08\x09 hello"[..];
    /// assert_eq!(0x0809, buf.get_i16());
    /// ```
    ///
    /// # Panics
    ///
    /// This function panics if there is not enough remaining data in `self`.
    fn get_i16(&mut self) -> i16 {
        buf_get_impl!(self, i16::from_be_bytes);
    }

    /// Gets a signed 16 bit integer from `self` in little-endian byte order.
    ///
    /// The current position is advanced by 2.
    ///
    /// # Examples
    ///
    /// ```
    /// use bytes::Buf;
    ///
    /// let mut buf = &b"\x09\x08 hello"[..];
    /// assert_eq!(0x0809, buf.get_i16_le());
    /// ```
    ///
    /// # Panics
    ///
    /// This function panics if there is not enough remaining data in `self`.
    fn get_i16_le(&mut self) -> i16 {
        buf_get_impl!(self, i16::from_le_bytes);
    }

    /// Gets a signed 16 bit integer from `self` in native-endian byte order.
    ///
    /// The current position is advanced by 2.
    ///
    /// # Examples
    ///
    /// ```
    /// use bytes::Buf;
    ///
    /// let mut buf: &[u8] = match cfg!(target_endian = "big") {
    ///     true => b"\x08\x09 hello",
    ///     false => b"\x09\x08 hello",
    /// };
    /// assert_eq!(0x0809, buf.get_i16_ne());
    /// ```
    ///
    /// # Panics
    ///
    /// This function panics if there is not enough remaining data in `self`.
    fn get_i16_ne(&mut self) -> i16 {
        buf_get_impl!(self, i16::from_ne_bytes);
    }

    /// Gets an unsigned 32 bit integer from `self` in the big-endian byte order.
    ///
    /// The current position is advanced by 4.
    ///
    /// # Examples
    ///
    /// ```
    /// use bytes::Buf;
    ///
    /// let mut buf = &b"\x08\x09\xA0\xA1 hello"[..];
    /// assert_eq!(0x0809A0A1, buf.get_u32());
    /// ```
    ///
    /// # Panics
    ///
    /// This function panics if there is not enough remaining data in `self`.
    fn get_u32(&mut self) -> u32 {
        buf_get_impl!(self, u32::from_be_bytes);
    }

    /// Gets an unsigned 32 bit integer from `self` in the little-endian byte order.
    ///
    /// The current position is advanced by 4.
    ///
    /// # Examples
    ///
    /// ```
    /// use bytes::Buf;
    ///
    /// let mut buf = &b"\xA1\xA0\x09\x08 hello"[..];
    /// assert_eq!(0x0809A0A1, buf.get_u32_le());
    /// ```
    ///
    /// # Panics
    ///
    /// This function panics if there is not enough remaining data in `self`.
    fn get_u32_le(&mut self) -> u32 {
        buf_get_impl!(self, u32::from_le_bytes);
    }

    /// Gets an unsigned 32 bit integer from `self` in native-endian byte order.
    ///
    /// The current position is advanced by 4.
    ///
    /// # Examples
    ///
    /// ```
    /// use bytes::Buf;
    ///
    /// let mut buf: &[u8] = match cfg!(target_endian = "big") {
    ///     true => b"\x08\x09\xA0\xA1 hello",
    ///     false => b"\xA1\xA0\x09\x08 hello",
    /// };
    /// assert_eq!(0x0809A0A1, buf.get_u32_ne());
    /// ```
    ///
    /// # Panics
    ///
    /// This function panics if there is not enough remaining data in `self`.
    fn get_u32_ne(&mut self) -> u32 {
        buf_get_impl!(self, u32::from_ne_bytes);
    }

    /// Gets a signed 32 bit integer from `self` in big-endian byte order.
    ///
    /// The current position is advanced by 4.
    ///
    /// # Examples
    ///
    /// ```
    /// use bytes::Buf;
    ///
    /// let mut buf = &b"\x08\x09\xA0\xA1 hello"[..];
    /// assert_eq!(0x0809A0A1, buf.get_i32());
    /// ```
    ///
    /// # Panics
    ///
    /// This function panics if there is not enough remaining data in `self`.
    fn get_i32(&mut self) -> i32 {
        buf_get_impl!(self, i32::from_be_bytes);
    }

    /// Gets a signed 32 bit integer from `self` in little-endian byte order.
    ///
    /// The current position is advanced by 4.
    ///
    /// # Examples
    ///
    /// ```
    /// use bytes::Buf;
    ///
    /// let mut buf = &b"\xA1\xA0\x09\x08 hello"[..];
    /// assert_eq!(0x0809A0A1, buf.get_i32_le());
    /// ```
    ///
    /// # Panics
    ///
    /// This function panics if there is not enough remaining data in `self`.
    fn get_i32_le(&mut self) -> i32 {
        buf_get_impl!(self, i32::from_le_bytes);
    }

    /// Gets a signed 32 bit integer from `self` in native-endian byte order.
    ///
    /// The current position is advanced by 4.
    ///
    /// # Examples
    ///
    /// ```
    /// use bytes::Buf;
    ///
    /// let mut buf: &[u8] = match cfg!(target_endian = "big") {
    ///     true => b"\x08\x09\xA0\xA1 hello",
    ///     false => b"\xA1\xA0\x09\x08 hello",
    /// };
    /// assert_eq!(0x0809A0A1, buf.get_i32_ne());
    /// ```
    ///
    /// # Panics
    ///
    /// This function panics if there is not enough remaining data in `self`.
    fn get_i32_ne(&mut self) -> i32 {
        buf_get_impl!(self, i32::from_ne_bytes);
    }

    /// Gets an unsigned 64 bit integer from `self` in big-endian byte order.
    ///
    /// The current position is advanced by 8.
    ///
    /// # Examples
    ///
    /// ```
    /// use bytes::Buf;
    ///
    /// let mut buf = &b"\x01\x02\x03\x04\x05\x06\x07\x08 hello"[..];
    /// assert_eq!(0x0102030405060708, buf.get_u64());
    /// ```
    ///
    /// # Panics
    ///
    /// This function panics if there is not enough remaining data in `self`.
    fn get_u64(&mut self) -> u64 {
        buf_get_impl!(self, u64::from_be_bytes);
    }

    /// Gets an unsigned 64 bit integer from `self` in little-endian byte order.
    ///
    /// The current position is advanced by 8.
    ///
    /// # Examples
    ///
    /// ```
    /// use bytes::Buf;
    ///
    /// let mut buf = &b"\x08\x07\x06\x05\x04\x03\x02\x01 hello"[..];
    /// assert_eq!(0x0102030405060708, buf.get_u64_le());
    /// ```
    ///
    /// # Panics
    ///
    /// This function panics if there is not enough remaining data in `self`.
    fn get_u64_le(&mut self) -> u64 {
        buf_get_impl!(self, u64::from_le_bytes);
    }

    /// Gets an unsigned 64 bit integer from `self` in native-endian byte order.
    ///
    /// The current position is advanced by 8.
    ///
    /// # Examples
    ///
    /// ```
    /// use bytes::Buf;
    ///
    /// let mut buf: &[u8] = match cfg!(target_endian = "big") {
    ///     true => b"\x01\x02\x03\x04\x05\x06\x07\x08 hello",
    ///     false => b"\x08\x07\x06\x05\x04\x03\x02\x01 hello",
    /// };
    /// assert_eq!(0x0102030405060708, buf.get_u64_ne());
    /// ```
    ///
    /// # Panics
    ///
    /// This function panics if there is not enough remaining data in `self`.
    fn get_u64_ne(&mut self) -> u64 {
        buf_get_impl!(self, u64::from_ne_bytes);
    }

    /// Gets a signed 64 bit integer from `self` in big-endian byte order.
    ///
    /// The current position is advanced by 8.
    ///
    /// # Examples
    ///
    /// ```
    /// use bytes::Buf;
    ///
    /// let mut buf = &b"\x01\x02\x03\x04\x05\x06\x07\x08 hello"[..];
    /// assert_eq!(0x0102030405060708, buf.get_i64());
    /// ```
    ///
    /// # Panics
    ///
    /// This function panics if there is not enough remaining data in `self`.
    fn get_i64(&mut self) -> i64 {
        buf_get_impl!(self, i64::from_be_bytes);
    }

    /// Gets a signed 64 bit integer from `self` in little-endian byte order.
    ///
    /// The current position is advanced by 8.
    ///
    /// # Examples
    ///
    /// ```
    /// use bytes::Buf;
    ///
    /// let mut buf = &b"\x08\x07\x06\x05\x04\x03\x02\x01 hello"[..];
    /// assert_eq!(0x0102030405060708, buf.get_i64_le());
    /// ```
    ///
    /// # Panics
    ///
    /// This function panics if there is not enough remaining data in `self`.
    fn get_i64_le(&mut self) -> i64 {
        buf_get_impl!(self, i64::from_le_bytes);
    }

    /// Gets a signed 64 bit integer from `self` in native-endian byte order.
    ///
    /// The current position is advanced by 8.
    ///
    /// # Examples
    ///
    /// ```
    /// use bytes::Buf;
    ///
    /// let mut buf: &[u8] = match cfg!(target_endian = "big") {
    ///     true => b"\x01\x02\x03\x04\x05\x06\x07\x08 hello",
    ///     false => b"\x08\x07\x06\x05\x04\x03\x02\x01 hello",
    /// };
    /// assert_eq!(0x0102030405060708, buf.get_i64_ne());
    /// ```
    ///
    /// # Panics
    ///
    /// This function panics if there is not enough remaining data in `self`.
    fn get_i64_ne(&mut self) -> i64 {
        buf_get_impl!(self, i64::from_ne_bytes);
    }

    /// Gets an unsigned 128 bit integer from `self` in big-endian byte order.
    ///
    /// The current position is advanced by 16.
    ///
    /// # Examples
    ///
    /// ```
    /// use bytes::Buf;
    ///
    /// let mut buf = &b"\x01\x02\x03\x04\x05\x06\x07\x08\x09\x10\x11\x12\x13\x14\x15\x16 hello"[..];
    /// assert_eq!(0x01020304050607080910111213141516, buf.get_u128());
    /// ```
    ///
    /// # Panics
    ///
    /// This function panics if there is not enough remaining data in `self`.
    fn get_u128(&mut self) -> u128 {
        buf_get_impl!(self, u128::from_be_bytes);
    }

    /// Gets an unsigned 128 bit integer from `self` in little-endian byte order.
    ///
    /// The current position is advanced by 16.
    ///
    /// # Examples
    ///
    /// ```
    /// use bytes::Buf;
    ///
    /// let mut buf = &b"\x16\x15\x14\x13\x12\x11\x10\x09\x08\x07\x06\x05\x04\x03\x02\x01 hello"[..];
    /// assert_eq!(0x01020304050607080910111213141516, buf.get_u128_le());
    /// ```
    ///
    /// # Panics
    ///
    /// This function panics if there is not enough remaining data in `self`.
    fn get_u128_le(&mut self) -> u128 {
        buf_get_impl!(self, u128::from_le_bytes);
    }

    /// Gets an unsigned 128 bit integer from `self` in native-endian byte order.
    ///
    /// The current position is advanced by 16.
    ///
    /// # Examples
    ///
    /// ```
    /// use bytes::Buf;
    ///
    /// let mut buf: &[u8] = match cfg!(target_endian = "big") {
    ///     true => b"\x01\x02\x03\x04\x05\x06\x07\x08\x09\x10\x11\x12\x13\x14\x15\x16 hello",
    ///     false => b"\x16\x15\x14\x13\x12\x11\x10\x09\x08\x07\x06\x05\x04\x03\x02\x01 hello",
    /// };
    /// assert_eq!(0x01020304050607080910111213141516, buf.get_u128_ne());
    /// ```
    ///
    /// # Panics
    ///
    /// This function panics if there is not enough remaining data in `self`.
    fn get_u128_ne(&mut self) -> u128 {
        buf_get_impl!(self, u128::from_ne_bytes);
    }

    /// Gets a signed 128 bit integer from `self` in big-endian byte order.
    ///
    /// The current position is advanced by 16.
    ///
    /// # Examples
    ///
    /// ```
    /// use bytes::Buf;
    ///
    /// let mut buf = &b"\x01\x02\x03\x04\x05\x06\x07\x08\x09\x10\x11\x12\x13\x14\x15\x16 hello"[..];
    /// assert_eq!(0x01020304050607080910111213141516, buf.get_i128());
    /// ```
    ///
    /// # Panics
    ///
    /// This function panics if there is not enough remaining data in `self`.
    fn get_i128(&mut self) -> i128 {
        buf_get_impl!(self, i128::from_be_bytes);
    }

    /// Gets a signed 128 bit integer from `self` in little-endian byte order.
    ///
    /// The current position is advanced by 16.
    ///
    /// # Examples
    ///
    /// ```
    /// use bytes::Buf;
    ///
    /// let mut buf = &b"\x16\x15\x14\x13\x12\x11\x10\x09\x08\x07\x06\x05\x04\x03\x02\x01 hello"[..];
    /// assert_eq!(0x01020304050607080910111213141516, buf.get_i128_le());
    /// ```
    ///
    /// # Panics
    ///
    /// This function panics if there is not enough remaining data in `self`.
    fn get_i128_le(&mut self) -> i128 {
        buf_get_impl!(self, i128::from_le_bytes);
    }

    /// Gets a signed 128 bit integer from `self` in native-endian byte order.
    ///
    /// The current position is advanced by 16.
    ///
    /// # Examples
    ///
    /// ```
    /// use bytes::Buf;
    ///
    /// let mut buf: &[u8] = match cfg!(target_endian = "big") {
    ///     true => b"\x01\x02\x03\x04\x05\x06\x07\x08\x09\x10\x11\x12\x13\x14\x15\x16 hello",
    ///     false => b"\x16\x15\x14\x13\x12\x11\x10\x09\x08\x07\x06\x05\x04\x03\x02\x01 hello",
    /// };
    /// assert_eq!(0x01020304050607080910111213141516, buf.get_i128_ne());
    /// ```
    ///
    /// # Panics
    ///
    /// This function panics if there is not enough remaining data in `self`.
    fn get_i128_ne(&mut self) -> i128 {
        buf_get_impl!(self, i128::from_ne_bytes);
    }

    /// Gets an unsigned n-byte integer from `self` in big-endian byte order.
    ///
    /// The current position is advanced by `nbytes`.
    ///
    /// # Examples
    ///
    /// ```
    /// use bytes::Buf;
    ///
    /// let mut buf = &b"\x01\x02\x03 hello"[..];
    /// assert_eq!(0x010203, buf.get_uint(3));
    /// ```
    ///
    /// # Panics
    ///
    /// This function panics if there is not enough remaining data in `self`, or
    /// if `nbytes` is greater than 8.
    fn get_uint(&mut self, nbytes: usize) -> u64 {
        buf_get_impl!(be => self, u64, nbytes);
    }

    /// Gets an unsigned n-byte integer from `self` in little-endian byte order.
    ///
    /// The current position is advanced by `nbytes`.
    ///
    /// # Examples
    ///
    /// ```
    /// use bytes::Buf;
    ///
    /// let mut buf = &b"\x03\x02\x01 hello"[..];
    /// assert_eq!(0x010203, buf.get_uint_le(3));
    /// ```
    ///
    /// # Panics
    ///
    /// This function panics if there is not enough remaining data in `self`, or
    /// if `nbytes` is greater than 8.
    fn get_uint_le(&mut self, nbytes: usize) -> u64 {
        buf_get_impl!(le => self, u64, nbytes);
    }

    /// Gets an unsigned n-byte integer from `self` in native-endian byte order.
    ///
    /// The current position is advanced by `nbytes`.
    ///
    /// # Examples
    ///
    /// ```
    /// use bytes::Buf;
    ///
    /// let mut buf: &[u8] = match cfg!(target_endian = "big") {
    ///     true => b"\x01\x02\x03 hello",
    ///     false => b"\x03\x02\x01 hello",
    /// };
    /// assert_eq!(0x010203, buf.get_uint_ne(3));
    /// ```
    ///
    /// # Panics
    ///
    /// This function panics if there is not enough remaining data in `self`, or
    /// if `nbytes` is greater than 8.
    fn get_uint_ne(&mut self, nbytes: usize) -> u64 {
        if cfg!(target_endian = "big") {
            self.get_uint(nbytes)
        } else {
            self.get_uint_le(nbytes)
        }
    }

    /// Gets a signed n-byte integer from `self` in big-endian byte order.
    ///
    /// The current position is advanced by `nbytes`.
    ///
    /// # Examples
    ///
    /// ```
    /// use bytes::Buf;
    ///
    /// let mut buf = &b"\x01\x02\x03 hello"[..];
    /// assert_eq!(0x010203, buf.get_int(3));
    /// ```
    ///
    /// # Panics
    ///
    /// This function panics if there is not enough remaining data in `self`, or
    /// if `nbytes` is greater than 8.
    fn get_int(&mut self, nbytes: usize) -> i64 {
        sign_extend(self.get_uint(nbytes), nbytes)
    }

    /// Gets a signed n-byte integer from `self` in little-endian byte order.
    ///
    /// The current position is advanced by `nbytes`.
    ///
    /// # Examples
    ///
    /// ```
    /// use bytes::Buf;
    ///
    /// let mut buf = &b"\x03\x02\x01 hello"[..];
    /// assert_eq!(0x010203, buf.get_int_le(3));
    /// ```
    ///
    /// # Panics
    ///
    /// This function panics if there is not enough remaining data in `self`, or
    /// if `nbytes` is greater than 8.
    fn get_int_le(&mut self, nbytes: usize) -> i64 {
        sign_extend(self.get_uint_le(nbytes), nbytes)
    }

    /// Gets a signed n-byte integer from `self` in native-endian byte order.
    ///
    /// The current position is advanced by `nbytes`.
    ///
    /// # Examples
    ///
    /// ```
    /// use bytes::Buf;
    ///
    /// let mut buf: &[u8] = match cfg!(target_endian = "big") {
    ///     true => b"\x01\x02\x03 hello",
    ///     false => b"\x03\x02\x01 hello",
    /// };
    /// assert_eq!(0x010203, buf.get_int_ne(3));
    /// ```
    ///
    /// # Panics
    ///
    /// This function panics if there is not enough remaining data in `self`, or
    /// if `nbytes` is greater than 8.
    fn get_int_ne(&mut self, nbytes: usize) -> i64 {
        if cfg!(target_endian = "big") {
            self.get_int(nbytes)
        } else {
            self.get_int_le(nbytes)
        }
    }

    /// Gets an IEEE754 single-precision (4 bytes) floating point number from
    /// `self` in big-endian byte order.
    ///
    /// The current position is advanced by 4.
    ///
    /// # Examples
    ///
    /// ```
    /// use bytes::Buf;
    ///
    /// let mut buf = &b"\x3F\x99\x99\x9A hello"[..];
    /// assert_eq!(1.2f32, buf.get_f32());
    /// ```
    ///
    /// # Panics
    ///
    /// This function panics if there is not enough remaining data in `self`.
    fn get_f32(&mut self) -> f32 {
        f32::from_bits(self.get_u32())
    }

    /// Gets an IEEE754 single-precision (4 bytes) floating point number from
    /// `self` in little-endian byte order.
    ///
    /// The current position is advanced by 4.
    ///
    /// # Examples
    ///
    /// ```
    /// use bytes::Buf;
    ///
    /// let mut buf = &b"\x9A\x99\x99\x3F hello"[..];
    /// assert_eq!(1.2f32, buf.get_f32_le());
    /// ```
    ///
    /// # Panics
    ///
    /// This function panics if there is not enough remaining data in `self`.
    fn get_f32_le(&mut self) -> f32 {
        f32::from_bits(self.get_u32_le())
    }

    /// Gets an IEEE754 single-precision (4 bytes) floating point number from
    /// `self` in native-endian byte order.
    ///
    /// The current position is advanced by 4.
    ///
    /// # Examples
    ///
    /// ```
    /// use bytes::Buf;
    ///
    /// let mut buf: &[u8] = match cfg!(target_endian = "big") {
    ///     true => b"\x3F\x99\x99\x9A hello",
    ///     false => b"\x9A\x99\x99\x3F hello",
    /// };
    /// assert_eq!(1.2f32, buf.get_f32_ne());
    /// ```
    ///
    /// # Panics
    ///
    /// This function panics if there is not enough remaining data in `self`.
    fn get_f32_ne(&mut self) -> f32 {
        f32::from_bits(self.get_u32_ne())
    }

    /// Gets an IEEE754 double-precision (8 bytes) floating point number from
    /// `self` in big-endian byte order.
    ///
    /// The current position is advanced by 8.
    ///
    /// # Examples
    ///
    /// ```
    /// use bytes::Buf;
    ///
    /// let mut buf = &b"\x3F\xF3\x33\x33\x33\x33\x33\x33 hello"[..];
    /// assert_eq!(1.2f64, buf.get_f64());
    /// ```
    ///
    /// # Panics
    ///
    /// This function panics if there is not enough remaining data in `self`.
    fn get_f64(&mut self) -> f64 {
        f64::from_bits(self.get_u64())
    }

    /// Gets an IEEE754 double-precision (8 bytes) floating point number from
    /// `self` in little-endian byte order.
    ///
    /// The current position is advanced by 8.
    ///
    /// # Examples
    ///
    /// ```
    /// use bytes::Buf;
    ///
    /// let mut buf = &b"\x33\x33\x33\x33\x33\x33\xF3\x3F hello"[..];
    /// assert_eq!(1.2f64, buf.get_f64_le());
    /// ```
    ///
    /// # Panics
    ///
    /// This function panics if there is not enough remaining data in `self`.
    fn get_f64_le(&mut self) -> f64 {
        f64::from_bits(self.get_u64_le())
    }

    /// Gets an IEEE754 double-precision (8 bytes) floating point number from
    /// `self` in native-endian byte order.
    ///
    /// The current position is advanced by 8.
    ///
    /// # Examples
    ///
    /// ```
    /// use bytes::Buf;
    ///
    /// let mut buf: &[u8] = match cfg!(target_endian = "big") {
    ///     true => b"\x3F\xF3\x33\x33\x33\x33\x33\x33 hello",
    ///     false => b"\x33\x33\x33\x33\x33\x33\xF3\x3F hello",
    /// };
    /// assert_eq!(1.2f64, buf.get_f64_ne());
    /// ```
    ///
    /// # Panics
    ///
    /// This function panics if there is not enough remaining data in `self`.
    fn get_f64_ne(&mut self) -> f64 {
        f64::from_bits(self.get_u64_ne())
    }

    /// Copies bytes from `self` into `dst`.
    ///
    /// The cursor is advanced by the number of bytes copied. `self` must have
    /// enough remaining bytes to fill `dst`.
    ///
    /// Returns `Err(TryGetError)` when there are not enough
    /// remaining bytes to read the value.
    ///
    /// # Examples
    ///
    /// ```
    /// use bytes::Buf;
    ///
    /// let mut buf = &b"hello world"[..];
    /// let mut dst = [0; 5];
    ///
    /// assert_eq!(Ok(()), buf.try_copy_to_slice(&mut dst));
    /// assert_eq!(&b"hello"[..], &dst);
    /// assert_eq!(6, buf.remaining());
    /// ```
    ///
    /// ```
    /// use bytes::{Buf, TryGetError};
    ///
    /// let mut buf = &b"hello world"[..];
    /// let mut dst = [0; 12];
    ///
    /// assert_eq!(Err(TryGetError{requested: 12, available: 11}), buf.try_copy_to_slice(&mut dst));
    /// assert_eq!(11, buf.remaining());
    /// ```
    fn try_copy_to_slice(&mut self, mut dst: &mut [u8]) -> Result<(), TryGetError> {
        if self.remaining() < dst.len() {
            return Err(TryGetError {
                requested: dst.len(),
                available: self.remaining(),
            });
        }

        while !dst.is_empty() {
            let src = self.chunk();
            let cnt = usize::min(src.len(), dst.len());

            dst[..cnt].copy_from_slice(&src[..cnt]);
            dst = &mut dst[cnt..];

            self.advance(cnt);
        }
        Ok(())
    }

    /// Gets an unsigned 8 bit integer from `self`.
    ///
    /// The current position is advanced by 1.
    ///
    /// Returns `Err(TryGetError)` when there are not enough
    /// remaining bytes to read the value.
    ///
    /// # Examples
    ///
    /// ```
    /// use bytes::Buf;
    ///
    /// let mut buf = &b"\x08 hello"[..];
    /// assert_eq!(Ok(0x08_u8), buf.try_get_u8());
    /// assert_eq!(6, buf.remaining());
    /// ```
    ///
    /// ```
    /// use bytes::{Buf, TryGetError};
    ///
    /// let mut buf = &b""[..];
    /// assert_eq!(Err(TryGetError{requested: 1, available: 0}), buf.try_get_u8());
    /// ```
    fn try_get_u8(&mut self) -> Result<u8, TryGetError> {
        if self.remaining() < 1 {
            return Err(TryGetError {
                requested: 1,
                available: self.remaining(),
            });
        }
        let ret = self.chunk()[0];
        self.advance(1);
        Ok(ret)
    }

    /// Gets a signed 8 bit integer from `self`.
    ///
    /// The current position is advanced by 1.
    ///
    /// Returns `Err(TryGetError)` when there are not enough
    /// remaining bytes to read the value.
    ///
    /// # Examples
    ///
    /// ```
    /// use bytes::Buf;
    ///
    /// let mut buf = &b"\x08 hello"[..];
    /// assert_eq!(Ok(0x08_i8), buf.try_get_i8());
    /// assert_eq!(6, buf.remaining());
    /// ```
    ///
    /// ```
    /// use bytes::{Buf, TryGetError};
    ///
    /// let mut buf = &b""[..];
    /// assert_eq!(Err(TryGetError{requested: 1, available: 0}), buf.try_get_i8());
    /// ```
    fn try_get_i8(&mut self) -> Result<i8, TryGetError> {
        if self.remaining() < 1 {
            return Err(TryGetError {
                requested: 1,
                available: self.remaining(),
            });
        }
        let ret = self.chunk()[0] as i8;
        self.advance(1);
        Ok(ret)
    }

    /// Gets an unsigned 16 bit integer from `self` in big-endian byte order.
    ///
    /// The current position is advanced by 2.
    ///
    /// Returns `Err(TryGetError)` when there are not enough
    /// remaining bytes to read the value.
    ///
    /// # Examples
    ///
    /// ```
    /// use bytes::Buf;
    ///
    /// let mut buf = &b"\x08\x09 hello"[..];
    /// assert_eq!(Ok(0x0809_u16), buf.try_get_u16());
    /// assert_eq!(6, buf.remaining());
    /// ```
    ///
    /// ```
    /// use bytes::{Buf, TryGetError};
    ///
    /// let mut buf = &b"\x08"[..];
    /// assert_eq!(Err(TryGetError{requested: 2, available: 1}), buf.try_get_u16());
    /// assert_eq!(1, buf.remaining());
    /// ```
    fn try_get_u16(&mut self) -> Result<u16, TryGetError> {
        buf_try_get_impl!(self, u16::from_be_bytes)
    }

    /// Gets an unsigned 16 bit integer from `self` in little-endian byte order.
    ///
    /// The current position is advanced by 2.
    ///
    /// Returns `Err(TryGetError)` when there are not enough
    /// remaining bytes to read the value.
    ///
    /// # Examples
    ///
    /// ```
    /// use bytes::Buf;
    ///
    /// let mut buf = &b"\x09\x08 hello"[..];
    /// assert_eq!(Ok(0x0809_u16), buf.try_get_u16_le());
    /// assert_eq!(6, buf.remaining());
    /// ```
    ///
    /// ```
    /// use bytes::{Buf, TryGetError};
    ///
    /// let mut buf = &b"\x08"[..];
    /// assert_eq!(Err(TryGetError{requested: 2, available: 1}), buf.try_get_u16_le());
    /// assert_eq!(1, buf.remaining());
    /// ```
    fn try_get_u16_le(&mut self) -> Result<u16, TryGetError> {
        buf_try_get_impl!(self, u16::from_le_bytes)
    }

    /// Gets an unsigned 16 bit integer from `self` in native-endian byte order.
    ///
    /// The current position is advanced by 2.
    ///
    /// Returns `Err(TryGetError)` when there are not enough
    /// remaining bytes to read the value.
    ///
    /// # Examples
    ///
    /// ```
    /// use bytes::Buf;
    ///
    /// let mut buf: &[u8] = match cfg!(target_endian = "big") {
    ///     true => b"\x08\x09 hello",
    ///     false => b"\x09\x08 hello",
    /// };
    /// assert_eq!(Ok(0x0809_u16), buf.try_get_u16_ne());
    /// assert_eq!(6, buf.remaining());
    /// ```
    ///
    /// ```
    /// use bytes::{Buf, TryGetError};
    ///
    /// let mut buf = &b"\x08"[..];
    /// assert_eq!(Err(TryGetError{requested: 2, available: 1}), buf.try_get_u16_ne());
    /// assert_eq!(1, buf.remaining());
    /// ```
    fn try_get_u16_ne(&mut self) -> Result<u16, TryGetError> {
        buf_try_get_impl!(self, u16::from_ne_bytes)
    }

    /// Gets a signed 16 bit integer from `self` in big-endian byte order.
    ///
    /// The current position is advanced by 2.
    ///
    /// Returns `Err(TryGetError)` when there are not enough
    /// remaining bytes to read the value.
    ///
    /// # Examples
    ///
    /// ```
    /// use bytes::Buf;
    ///
    /// let mut buf = &b"\x08\x09 hello"[..];
    /// assert_eq!(Ok(0x0809_i16), buf.try_get_i16());
    /// assert_eq!(6, buf.remaining());
    /// ```
    ///
    /// ```
    /// use bytes::{Buf, TryGetError};
    ///
    /// let mut buf = &b"\x08"[..];
    /// assert_eq!(Err(TryGetError{requested: 2, available: 1}), buf.try_get_i16());
    /// assert_eq!(1, buf.remaining());
    /// ```
    fn try_get_i16(&mut self) -> Result<i16, TryGetError> {
        buf_try_get_impl!(self, i16::from_be_bytes)
    }

    /// Gets an signed 16 bit integer from `self` in little-endian byte order.
    ///
    /// The current position is advanced by 2.
    ///
    /// Returns `Err(TryGetError)` when there are not enough
    /// remaining bytes to read the value.
    ///
    /// # Examples
    ///
    /// ```
    /// use bytes::Buf;
    ///
    /// let mut buf = &b"\x09\x08 hello"[..];
    /// assert_eq!(Ok(0x0809_i16), buf.try_get_i16_le());
    /// assert_eq!(6, buf.remaining());
    /// ```
    ///
    /// ```
    /// use bytes::{Buf, TryGetError};
    ///
    /// let mut buf = &b"\x08"[..];
    /// assert_eq!(Err(TryGetError{requested: 2, available: 1}), buf.try_get_i16_le());
    /// assert_eq!(1, buf.remaining());
    /// ```
    fn try_get_i16_le(&mut self) -> Result<i16, TryGetError> {
        buf_try_get_impl!(self, i16::from_le_bytes)
    }

    /// Gets a signed 16 bit integer from `self` in native-endian byte order.
    ///
    /// The current position is advanced by 2.
    ///
    /// Returns `Err(TryGetError)` when there are not enough
    /// remaining bytes to read the value.
    ///
    /// # Examples
    ///
    /// ```
    /// use bytes::Buf;
    ///
    /// let mut buf: &[u8] = match cfg!(target_endian = "big") {
    ///     true => b"\x08\x09 hello",
    ///     false => b"\x09\x08 hello",
    /// };
    /// assert_eq!(Ok(0x0809_i16), buf.try_get_i16_ne());
    /// assert_eq!(6, buf.remaining());
    /// ```
    ///
    /// ```
    /// use bytes::{Buf, TryGetError};
    ///
    /// let mut buf = &b"\x08"[..];
    /// assert_eq!(Err(TryGetError{requested: 2, available: 1}), buf.try_get_i16_ne());
    /// assert_eq!(1, buf.remaining());
    /// ```
    fn try_get_i16_ne(&mut self) -> Result<i16, TryGetError> {
        buf_try_get_impl!(self, i16::from_ne_bytes)
    }

    /// Gets an unsigned 32 bit integer from `self` in big-endian byte order.
    ///
    /// The current position is advanced by 4.
    ///
    /// Returns `Err(TryGetError)` when there are not enough
    /// remaining bytes to read the value.
    ///
    /// # Examples
    ///
    /// ```
    /// use bytes::Buf;
    ///
    /// let mut buf = &b"\x08\x09\xA0\xA1 hello"[..];
    /// assert_eq!(Ok(0x0809A0A1), buf.try_get_u32());
    /// assert_eq!(6, buf.remaining());
    /// ```
    ///
    /// ```
    /// use bytes::{Buf, TryGetError};
    ///
    /// let mut buf = &b"\x01\x02\x03"[..];
    /// assert_eq!(Err(TryGetError{requested: 4, available: 3}), buf.try_get_u32());
    /// assert_eq!(3, buf.remaining());
    /// ```
    fn try_get_u32(&mut self) -> Result<u32, TryGetError> {
        buf_try_get_impl!(self, u32::from_be_bytes)
    }

    /// Gets an unsigned 32 bit integer from `self` in little-endian byte order.
    ///
    /// The current position is advanced by 4.
    ///
    /// Returns `Err(TryGetError)` when there are not enough
    /// remaining bytes to read the value.
    ///
    /// # Examples
    ///
    /// ```
    /// use bytes::Buf;
    ///
    /// let mut buf = &b"\xA1\xA0\x09\x08 hello"[..];
    /// assert_eq!(Ok(0x0809A0A1_u32), buf.try_get_u32_le());
    /// assert_eq!(6, buf.remaining());
    /// ```
    ///
    /// ```
    /// use bytes::{Buf, TryGetError};
    ///
    /// let mut buf = &b"\x08\x09\xA0"[..];
    /// assert_eq!(Err(TryGetError{requested: 4, available: 3}), buf.try_get_u32_le());
    /// assert_eq!(3, buf.remaining());
    /// ```
    fn try_get_u32_le(&mut self) -> Result<u32, TryGetError> {
        buf_try_get_impl!(self, u32::from_le_bytes)
    }

    /// Gets an unsigned 32 bit integer from `self` in native-endian byte order.
    ///
    /// The current position is advanced by 4.
    ///
    /// Returns `Err(TryGetError)` when there are not enough
    /// remaining bytes to read the value.
    ///
    /// # Examples
    ///
    /// ```
    /// use bytes::Buf;
    ///
    /// let mut buf: &[u8] = match cfg!(target_endian = "big") {
    ///     true => b"\x08\x09\xA0\xA1 hello",
    ///     false => b"\xA1\xA0\x09\x08 hello",
    /// };
    /// assert_eq!(Ok(0x0809A0A1_u32), buf.try_get_u32_ne());
    /// assert_eq!(6, buf.remaining());
    /// ```
    ///
    /// ```
    /// use bytes::{Buf, TryGetError};
    ///
    /// let mut buf = &b"\x08\x09\xA0"[..];
    /// assert_eq!(Err(TryGetError{requested: 4, available: 3}), buf.try_get_u32_ne());
    /// assert_eq!(3, buf.remaining());
    /// ```
    fn try_get_u32_ne(&mut self) -> Result<u32, TryGetError> {
        buf_try_get_impl!(self, u32::from_ne_bytes)
    }

    /// Gets a signed 32 bit integer from `self` in big-endian byte order.
    ///
    /// The current position is advanced by 4.
    ///
    /// Returns `Err(TryGetError)` when there are not enough
    /// remaining bytes to read the value.
    ///
    /// # Examples
    ///
    /// ```
    /// use bytes::Buf;
    ///
    /// let mut buf = &b"\x08\x09\xA0\xA1 hello"[..];
    /// assert_eq!(Ok(0x0809A0A1_i32), buf.try_get_i32());
    /// assert_eq!(6, buf.remaining());
    /// ```
    ///
    /// ```
    /// use bytes::{Buf, TryGetError};
    ///
    /// let mut buf = &b"\x01\x02\x03"[..];
    /// assert_eq!(Err(TryGetError{requested: 4, available: 3}), buf.try_get_i32());
    /// assert_eq!(3, buf.remaining());
    /// ```
    fn try_get_i32(&mut self) -> Result<i32, TryGetError> {
        buf_try_get_impl!(self, i32::from_be_bytes)
    }

    /// Gets a signed 32 bit integer from `self` in little-endian byte order.
    ///
    /// The current position is advanced by 4.
    ///
    /// Returns `Err(TryGetError)` when there are not enough
    /// remaining bytes to read the value.
    ///
    /// # Examples
    ///
    /// ```
    /// use bytes::Buf;
    ///
    /// let mut buf = &b"\xA1\xA0\x09\x08 hello"[..];
    /// assert_eq!(Ok(0x0809A0A1_i32), buf.try_get_i32_le());
    /// assert_eq!(6, buf.remaining());
    /// ```
    ///
    /// ```
    /// use bytes::{Buf, TryGetError};
    ///
    /// let mut buf = &b"\x08\x09\xA0"[..];
    /// assert_eq!(Err(TryGetError{requested: 4, available: 3}), buf.try_get_i32_le());
    /// assert_eq!(3, buf.remaining());
    /// ```
    fn try_get_i32_le(&mut self) -> Result<i32, TryGetError> {
        buf_try_get_impl!(self, i32::from_le_bytes)
    }

    /// Gets a signed 32 bit integer from `self` in native-endian byte order.
    ///
    /// The current position is advanced by 4.
    ///
    /// Returns `Err(TryGetError)` when there are not enough
    /// remaining bytes to read the value.
    ///
    /// # Examples
    ///
    /// ```
    /// use bytes::Buf;
    ///
    /// let mut buf: &[u8] = match cfg!(target_endian = "big") {
    ///     true => b"\x08\x09\xA0\xA1 hello",
    ///     false => b"\xA1\xA0\x09\x08 hello",
    /// };
    /// assert_eq!(Ok(0x0809A0A1_i32), buf.try_get_i32_ne());
    /// assert_eq!(6, buf.remaining());
    /// ```
    ///
    /// ```
    /// use bytes::{Buf, TryGetError};
    ///
    /// let mut buf = &b"\x08\x09\xA0"[..];
    /// assert_eq!(Err(TryGetError{requested: 4, available: 3}), buf.try_get_i32_ne());
    /// assert_eq!(3, buf.remaining());
    /// ```
    fn try_get_i32_ne(&mut self) -> Result<i32, TryGetError> {
        buf_try_get_impl!(self, i32::from_ne_bytes)
    }

    /// Gets an unsigned 64 bit integer from `self` in big-endian byte order.
    ///
    /// The current position is advanced by 8.
    ///
    /// Returns `Err(TryGetError)` when there are not enough
    /// remaining bytes to read the value.
    ///
    /// # Examples
    ///
    /// ```
    /// use bytes::Buf;
    ///
    /// let mut buf = &b"\x01\x02\x03\x04\x05\x06\x07\x08 hello"[..];
    /// assert_eq!(Ok(0x0102030405060708_u64), buf.try_get_u64());
    /// assert_eq!(6, buf.remaining());
    /// ```
    ///
    /// ```
    /// use bytes::{Buf, TryGetError};
    ///
    /// let mut buf = &b"\x01\x02\x03\x04\x05\x06\x07"[..];
    /// assert_eq!(Err(TryGetError{requested: 8, available: 7}), buf.try_get_u64());
    /// assert_eq!(7, buf.remaining());
    /// ```
    fn try_get_u64(&mut self) -> Result<u64, TryGetError> {
        buf_try_get_impl!(self, u64::from_be_bytes)
    }

    /// Gets an unsigned 64 bit integer from `self` in little-endian byte order.
    ///
    /// The current position is advanced by 8.
    ///
    /// Returns `Err(TryGetError)` when there are not enough
    /// remaining bytes to read the value.
    ///
    /// # Examples
    ///
    /// ```
    /// use bytes::Buf;
    ///
    /// let mut buf = &b"\x08\x07\x06\x05\x04\x03\x02\x01 hello"[..];
    /// assert_eq!(Ok(0x0102030405060708_u64), buf.try_get_u64_le());
    /// assert_eq!(6, buf.remaining());
    /// ```
    ///
    /// ```
    /// use bytes::{Buf, TryGetError};
    ///
    /// let mut buf = &b"\x08\x07\x06\x05\x04\x03\x02"[..];
    /// assert_eq!(Err(TryGetError{requested: 8, available: 7}), buf.try_get_u64_le());
    /// assert_eq!(7, buf.remaining());
    /// ```
    fn try_get_u64_le(&mut self) -> Result<u64, TryGetError> {
        buf_try_get_impl!(self, u64::from_le_bytes)
    }

    /// Gets an unsigned 64 bit integer from `self` in native-endian byte order.
    ///
    /// The current position is advanced by 8.
    ///
    /// Returns `Err(TryGetError)` when there are not enough
    /// remaining bytes to read the value.
    ///
    /// # Examples
    ///
    /// ```
    /// use bytes::Buf;
    ///
    /// let mut buf: &[u8] = match cfg!(target_endian = "big") {
    ///     true => b"\x01\x02\x03\x04\x05\x06\x07\x08 hello",
    ///     false => b"\x08\x07\x06\x05\x04\x03\x02\x01 hello",
    /// };
    /// assert_eq!(Ok(0x0102030405060708_u64), buf.try_get_u64_ne());
    /// assert_eq!(6, buf.remaining());
    /// ```
    ///
    /// ```
    /// use bytes::{Buf, TryGetError};
    ///
    /// let mut buf = &b"\x01\x02\x03\x04\x05\x06\x07"[..];
    /// assert_eq!(Err(TryGetError{requested: 8, available: 7}), buf.try_get_u64_ne());
    /// assert_eq!(7, buf.remaining());
    /// ```
    fn try_get_u64_ne(&mut self) -> Result<u64, TryGetError> {
        buf_try_get_impl!(self, u64::from_ne_bytes)
    }

    /// Gets a signed 64 bit integer from `self` in big-endian byte order.
    ///
    /// The current position is advanced by 8.
    ///
    /// Returns `Err(TryGetError)` when there are not enough
    /// remaining bytes to read the value.
    ///
    /// # Examples
    ///
    /// ```
    /// use bytes::Buf;
    ///
    /// let mut buf = &b"\x01\x02\x03\x04\x05\x06\x07\x08 hello"[..];
    /// assert_eq!(Ok(0x0102030405060708_i64), buf.try_get_i64());
    /// assert_eq!(6, buf.remaining());
    /// ```
    ///
    /// ```
    /// use bytes::{Buf, TryGetError};
    ///
    /// let mut buf = &b"\x01\x02\x03\x04\x05\x06\x07"[..];
    /// assert_eq!(Err(TryGetError{requested: 8, available: 7}), buf.try_get_i64());
    /// assert_eq!(7, buf.remaining());
    /// ```
    fn try_get_i64(&mut self) -> Result<i64, TryGetError> {
        buf_try_get_impl!(self, i64::from_be_bytes)
    }

    /// Gets a signed 64 bit integer from `self` in little-endian byte order.
    ///
    /// The current position is advanced by 8.
    ///
    /// Returns `Err(TryGetError)` when there are not enough
    /// remaining bytes to read the value.
    ///
    /// # Examples
    ///
    /// ```
    /// use bytes::Buf;
    ///
    /// let mut buf = &b"\x08\x07\x06\x05\x04\x03\x02\x01 hello"[..];
    /// assert_eq!(Ok(0x0102030405060708_i64), buf.try_get_i64_le());
    /// assert_eq!(6, buf.remaining());
    /// ```
    ///
    /// ```
    /// use bytes::{Buf, TryGetError};
    ///
    /// let mut buf = &b"\x08\x07\x06\x05\x04\x03\x02"[..];
    /// assert_eq!(Err(TryGetError{requested: 8, available: 7}), buf.try_get_i64_le());
    /// assert_eq!(7, buf.remaining());
    /// ```
    fn try_get_i64_le(&mut self) -> Result<i64, TryGetError> {
        buf_try_get_impl!(self, i64::from_le_bytes)
    }

    /// Gets a signed 64 bit integer from `self` in native-endian byte order.
    ///
    /// The current position is advanced by 8.
    ///
    /// Returns `Err(TryGetError)` when there are not enough
    /// remaining bytes to read the value.
    ///
    /// # Examples
    ///
    /// ```
    /// use bytes::Buf;
    ///
    /// let mut buf: &[u8] = match cfg!(target_endian = "big") {
    ///     true => b"\x01\x02\x03\x04\x05\x06\x07\x08 hello",
    ///     false => b"\x08\x07\x06\x05\x04\x03\x02\x01 hello",
    /// };
    /// assert_eq!(Ok(0x0102030405060708_i64), buf.try_get_i64_ne());
    /// assert_eq!(6, buf.remaining());
    /// ```
    ///
    /// ```
    /// use bytes::{Buf, TryGetError};
    ///
    /// let mut buf = &b"\x01\x02\x03\x04\x05\x06\x07"[..];
    /// assert_eq!(Err(TryGetError{requested: 8, available: 7}), buf.try_get_i64_ne());
    /// assert_eq!(7, buf.remaining());
    /// ```
    fn try_get_i64_ne(&mut self) -> Result<i64, TryGetError> {
        buf_try_get_impl!(self, i64::from_ne_bytes)
    }

    /// Gets an unsigned 128 bit integer from `self` in big-endian byte order.
    ///
    /// The current position is advanced by 16.
    ///
    /// Returns `Err(TryGetError)` when there are not enough
    /// remaining bytes to read the value.
    ///
    /// # Examples
    ///
    /// ```
    /// use bytes::Buf;
    ///
    /// let mut buf = &b"\x01\x02\x03\x04\x05\x06\x07\x08\x09\x10\x11\x12\x13\x14\x15\x16 hello"[..];
    /// assert_eq!(Ok(0x01020304050607080910111213141516_u128), buf.try_get_u128());
    /// assert_eq!(6, buf.remaining());
    /// ```
    ///
    /// ```
    /// use bytes::{Buf, TryGetError};
    ///
    /// let mut buf = &b"\x01\x02\x03\x04\x05\x06\x07\x08\x09\x10\x11\x12\x13\x14\x15"[..];
    /// assert_eq!(Err(TryGetError{requested: 16, available: 15}), buf.try_get_u128());
    /// assert_eq!(15, buf.remaining());
    /// ```
    fn try_get_u128(&mut self) -> Result<u128, TryGetError> {
        buf_try_get_impl!(self, u128::from_be_bytes)
    }

    /// Gets an unsigned 128 bit integer from `self` in little-endian byte order.
    ///
    /// The current position is advanced by 16.
    ///
    /// Returns `Err(TryGetError)` when there are not enough
    /// remaining bytes to read the value.
    ///
    /// # Examples
    ///
    /// ```
    /// use bytes::Buf;
    ///
    /// let mut buf = &b"\x16\x15\x14\x13\x12\x11\x10\x09\x08\x07\x06\x05\x04\x03\x02\x01 hello"[..];
    /// assert_eq!(Ok(0x01020304050607080910111213141516_u128), buf.try_get_u128_le());
    /// assert_eq!(6, buf.remaining());
    /// ```
    ///
    /// ```
    /// use bytes::{Buf, TryGetError};
    ///
    /// let mut buf = &b"\x16\x15\x14\x13\x12\x11\x10\x09\x08\x07\x06\x05\x04\x03\x02"[..];
    /// assert_eq!(Err(TryGetError{requested: 16, available: 15}), buf.try_get_u128_le());
    /// assert_eq!(15, buf.remaining());
    /// ```
    fn try_get_u128_le(&mut self) -> Result<u128, TryGetError> {
        buf_try_get_impl!(self, u128::from_le_bytes)
    }

    /// Gets an unsigned 128 bit integer from `self` in native-endian byte order.
    ///
    /// The current position is advanced by 16.
    ///
    /// Returns `Err(TryGetError)` when there are not enough
    /// remaining bytes to read the value.
    ///
    /// # Examples
    ///
    /// ```
    /// use bytes::Buf;
    ///
    /// let mut buf: &[u8] = match cfg!(target_endian = "big") {
    ///     true => b"\x01\x02\x03\x04\x05\x06\x07\x08\x09\x10\x11\x12\x13\x14\x15\x16 hello",
    ///     false => b"\x16\x15\x14\x13\x12\x11\x10\x09\x08\x07\x06\x05\x04\x03\x02\x01 hello",
    /// };
    /// assert_eq!(Ok(0x01020304050607080910111213141516_u128), buf.try_get_u128_ne());
    /// assert_eq!(6, buf.remaining());
    /// ```
    ///
    /// ```
    /// use bytes::{Buf, TryGetError};
    ///
    /// let mut buf = &b"\x01\x02\x03\x04\x05\x06\x07\x08\x09\x10\x11\x12\x13\x14\x15"[..];
    /// assert_eq!(Err(TryGetError{requested: 16, available: 15}), buf.try_get_u128_ne());
    /// assert_eq!(15, buf.remaining());
    /// ```
    fn try_get_u128_ne(&mut self) -> Result<u128, TryGetError> {
        buf_try_get_impl!(self, u128::from_ne_bytes)
    }

    /// Gets a signed 128 bit integer from `self` in big-endian byte order.
    ///
    /// The current position is advanced by 16.
    ///
    /// Returns `Err(TryGetError)` when there are not enough
    /// remaining bytes to read the value.
    ///
    /// # Examples
    ///
    /// ```
    /// use bytes::Buf;
    ///
    /// let mut buf = &b"\x01\x02\x03\x04\x05\x06\x07\x08\x09\x10\x11\x12\x13\x14\x15\x16 hello"[..];
    /// assert_eq!(Ok(0x01020304050607080910111213141516_i128), buf.try_get_i128());
    /// assert_eq!(6, buf.remaining());
    /// ```
    ///
    /// ```
    /// use bytes::{Buf, TryGetError};
    ///
    /// let mut buf = &b"\x01\x02\x03\x04\x05\x06\x07\x08\x09\x10\x11\x12\x13\x14\x15"[..];
    /// assert_eq!(Err(TryGetError{requested: 16, available: 15}), buf.try_get_i128());
    /// assert_eq!(15, buf.remaining());
    /// ```
    fn try_get_i128(&mut self) -> Result<i128, TryGetError> {
        buf_try_get_impl!(self, i128::from_be_bytes)
    }

    /// Gets a signed 128 bit integer from `self` in little-endian byte order.
    ///
    /// The current position is advanced by 16.
    ///
    /// Returns `Err(TryGetError)` when there are not enough
    /// remaining bytes to read the value.
    ///
    /// # Examples
    ///
    /// ```
    /// use bytes::Buf;
    ///
    /// let mut buf = &b"\x16\x15\x14\x13\x12\x11\x10\x09\x08\x07\x06\x05\x04\x03\x02\x01 hello"[..];
    /// assert_eq!(Ok(0x01020304050607080910111213141516_i128), buf.try_get_i128_le());
    /// assert_eq!(6, buf.remaining());
    /// ```
    ///
    /// ```
    /// use bytes::{Buf, TryGetError};
    ///
    /// let mut buf = &b"\x16\x15\x14\x13\x12\x11\x10\x09\x08\x07\x06\x05\x04\x03\x02"[..];
    /// assert_eq!(Err(TryGetError{requested: 16, available: 15}), buf.try_get_i128_le());
    /// assert_eq!(15, buf.remaining());
    /// ```
    fn try_get_i128_le(&mut self) -> Result<i128, TryGetError> {
        buf_try_get_impl!(self, i128::from_le_bytes)
    }

    /// Gets a signed 128 bit integer from `self` in native-endian byte order.
    ///
    /// The current position is advanced by 16.
    ///
    /// Returns `Err(TryGetError)` when there are not enough
    /// remaining bytes to read the value.
    ///
    /// # Examples
    ///
    /// ```
    /// use bytes::Buf;
    ///
    /// let mut buf: &[u8] = match cfg!(target_endian = "big") {
    ///     true => b"\x01\x02\x03\x04\x05\x06\x07\x08\x09\x10\x11\x12\x13\x14\x15\x16 hello",
    ///     false => b"\x16\x15\x14\x13\x12\x11\x10\x09\x08\x07\x06\x05\x04\x03\x02\x01 hello",
    /// };
    /// assert_eq!(Ok(0x01020304050607080910111213141516_i128), buf.try_get_i128_ne());
    /// assert_eq!(6, buf.remaining());
    /// ```
    ///
    /// ```
    /// use bytes::{Buf, TryGetError};
    ///
    /// let mut buf = &b"\x01\x02\x03\x04\x05\x06\x07\x08\x09\x10\x11\x12\x13\x14\x15"[..];
    /// assert_eq!(Err(TryGetError{requested: 16, available: 15}), buf.try_get_i128_ne());
    /// assert_eq!(15, buf.remaining());
    /// ```
    fn try_get_i128_ne(&mut self) -> Result<i128, TryGetError> {
        buf_try_get_impl!(self, i128::from_ne_bytes)
    }

    /// Gets an unsigned n-byte integer from `self` in big-endian byte order.
    ///
    /// The current position is advanced by `nbytes`.
    ///
    /// Returns `Err(TryGetError)` when there are not enough
    /// remaining bytes to read the value.
    ///
    /// # Examples
    ///
    /// ```
    /// use bytes::Buf;
    ///
    /// let mut buf = &b"\x01\x02\x03 hello"[..];
    /// assert_eq!(Ok(0x010203_u64), buf.try_get_uint(3));
    /// assert_eq!(6, buf.remaining());
    /// ```
    ///
    /// ```
    /// use bytes::{Buf, TryGetError};
    ///
    /// let mut buf = &b"\x01\x02\x03"[..];
    /// assert_eq!(Err(TryGetError{requested: 4, available: 3}), buf.try_get_uint(4));
    /// assert_eq!(3, buf.remaining());
    /// ```
    ///
    /// # Panics
    ///
    /// This function panics if `nbytes` > 8.
    fn try_get_uint(&mut self, nbytes: usize) -> Result<u64, TryGetError> {
        buf_try_get_impl!(be => self, u64, nbytes);
    }

    /// Gets an unsigned n-byte integer from `self` in little-endian byte order.
    ///
    /// The current position is advanced by `nbytes`.
    ///
    /// Returns `Err(TryGetError)` when there are not enough
    /// remaining bytes to read the value.
    ///
    /// # Examples
    ///
    /// ```
    /// use bytes::Buf;
    ///
    /// let mut buf = &b"\x03\x02\x01 hello"[..];
    /// assert_eq!(Ok(0x010203_u64), buf.try_get_uint_le(3));
    /// assert_eq!(6, buf.remaining());
    /// ```
    ///
    /// ```
    /// use bytes::{Buf, TryGetError};
    ///
    /// let mut buf = &b"\x01\x02\x03"[..];
    /// assert_eq!(Err(TryGetError{requested: 4, available: 3}), buf.try_get_uint_le(4));
    /// assert_eq!(3, buf.remaining());
    /// ```
    ///
    /// # Panics
    ///
    /// This function panics if `nbytes` > 8.
    fn try_get_uint_le(&mut self, nbytes: usize) -> Result<u64, TryGetError> {
        buf_try_get_impl!(le => self, u64, nbytes);
    }

    /// Gets an unsigned n-byte integer from `self` in native-endian byte order.
    ///
    /// The current position is advanced by `nbytes`.
    ///
    /// Returns `Err(TryGetError)` when there are not enough
    /// remaining bytes to read the value.
    ///
    /// # Examples
    ///
    /// ```
    /// use bytes::Buf;
    ///
    /// let mut buf: &[u8] = match cfg!(target_endian = "big") {
    ///     true => b"\x01\x02\x03 hello",
    ///     false => b"\x03\x02\x01 hello",
    /// };
    /// assert_eq!(Ok(0x010203_u64), buf.try_get_uint_ne(3));
    /// assert_eq!(6, buf.remaining());
    /// ```
    ///
    /// ```
    /// use bytes::{Buf, TryGetError};
    ///
    /// let mut buf: &[u8] = match cfg!(target_endian = "big") {
    ///     true => b"\x01\x02\x03",
    ///     false => b"\x03\x02\x01",
    /// };
    /// assert_eq!(Err(TryGetError{requested: 4, available: 3}), buf.try_get_uint_ne(4));
    /// assert_eq!(3, buf.remaining());
    /// ```
    ///
    /// # Panics
    ///
    /// This function panics if `nbytes` is greater than 8.
    fn try_get_uint_ne(&mut self, nbytes: usize) -> Result<u64, TryGetError> {
        if cfg!(target_endian = "big") {
            self.try_get_uint(nbytes)
        } else {
            self.try_get_uint_le(nbytes)
        }
    }

    /// Gets a signed n-byte integer from `self` in big-endian byte order.
    ///
    /// The current position is advanced by `nbytes`.
    ///
    /// Returns `Err(TryGetError)` when there are not enough
    /// remaining bytes to read the value.
    ///
    /// # Examples
    ///
    /// ```
    /// use bytes::Buf;
    ///
    /// let mut buf = &b"\x01\x02\x03 hello"[..];
    /// assert_eq!(Ok(0x010203_i64), buf.try_get_int(3));
    /// assert_eq!(6, buf.remaining());
    /// ```
    ///
    /// ```
    /// use bytes::{Buf, TryGetError};
    ///
    /// let mut buf = &b"\x01\x02\x03"[..];
    /// assert_eq!(Err(TryGetError{requested: 4, available: 3}), buf.try_get_int(4));
    /// assert_eq!(3, buf.remaining());
    /// ```
    ///
    /// # Panics
    ///
    /// This function panics if `nbytes` is greater than 8.
    fn try_get_int(&mut self, nbytes: usize) -> Result<i64, TryGetError> {
        buf_try_get_impl!(be => self, i64, nbytes);
    }

    /// Gets a signed n-byte integer from `self` in little-endian byte order.
    ///
    /// The current position is advanced by `nbytes`.
    ///
    /// Returns `Err(TryGetError)` when there are not enough
    /// remaining bytes to read the value.
    ///
    /// # Examples
    ///
    /// ```
    /// use bytes::Buf;
    ///
    /// let mut buf = &b"\x03\x02\x01 hello"[..];
    /// assert_eq!(Ok(0x010203_i64), buf.try_get_int_le(3));
    /// assert_eq!(6, buf.remaining());
    /// ```
    ///
    /// ```
    /// use bytes::{Buf, TryGetError};
    ///
    /// let mut buf = &b"\x01\x02\x03"[..];
    /// assert_eq!(Err(TryGetError{requested: 4, available: 3}), buf.try_get_int_le(4));
    /// assert_eq!(3, buf.remaining());
    /// ```
    ///
    /// # Panics
    ///
    /// This function panics if `nbytes` is greater than 8.
    fn try_get_int_le(&mut self, nbytes: usize) -> Result<i64, TryGetError> {
        buf_try_get_impl!(le => self, i64, nbytes);
    }

    /// Gets a signed n-byte integer from `self` in native-endian byte order.
    ///
    /// The current position is advanced by `nbytes`.
    ///
    /// Returns `Err(TryGetError)` when there are not enough
    /// remaining bytes to read the value.
    ///
    /// # Examples
    ///
    /// ```
    /// use bytes::Buf;
    ///
    /// let mut buf: &[u8] = match cfg!(target_endian = "big") {
    ///     true => b"\x01\x02\x03 hello",
    ///     false => b"\x03\x02\x01 hello",
    /// };
    /// assert_eq!(Ok(0x010203_i64), buf.try_get_int_ne(3));
    /// assert_eq!(6, buf.remaining());
    /// ```
    ///
    /// ```
    /// use bytes::{Buf, TryGetError};
    ///
    /// let mut buf: &[u8] = match cfg!(target_endian = "big") {
    ///     true => b"\x01\x02\x03",
    ///     false => b"\x03\x02\x01",
    /// };
    /// assert_eq!(Err(TryGetError{requested: 4, available: 3}), buf.try_get_int_ne(4));
    /// assert_eq!(3, buf.remaining());
    /// ```
    ///
    /// # Panics
    ///
    /// This function panics if `nbytes` is greater than 8.
    fn try_get_int_ne(&mut self, nbytes: usize) -> Result<i64, TryGetError> {
        if cfg!(target_endian = "big") {
            self.try_get_int(nbytes)
        } else {
            self.try_get_int_le(nbytes)
        }
    }

    /// Gets an IEEE754 single-precision (4 bytes) floating point number from
    /// `self` in big-endian byte order.
    ///
    /// The current position is advanced by 4.
    ///
    /// Returns `Err(TryGetError)` when there are not enough
    /// remaining bytes to read the value.
    ///
    /// # Examples
    ///
    /// ```
    /// use bytes::Buf;
    ///
    /// let mut buf = &b"\x3F\x99\x99\x9A hello"[..];
    /// assert_eq!(1.2f32, buf.get_f32());
    /// assert_eq!(6, buf.remaining());
    /// ```
    ///
    /// ```
    /// use bytes::{Buf, TryGetError};
    ///
    /// let mut buf = &b"\x3F\x99\x99"[..];
    /// assert_eq!(Err(TryGetError{requested: 4, available: 3}), buf.try_get_f32());
    /// assert_eq!(3, buf.remaining());
    /// ```
    fn try_get_f32(&mut self) -> Result<f32, TryGetError> {
        Ok(f32::from_bits(self.try_get_u32()?))
    }

    /// Gets an IEEE754 single-precision (4 bytes) floating point number from
    /// `self` in little-endian byte order.
    ///
    /// The current position is advanced by 4.
    ///
    /// Returns `Err(TryGetError)` when there are not enough
    /// remaining bytes to read the value.
    ///
    /// # Examples
    ///
    /// ```
    /// use bytes::Buf;
    ///
    /// let mut buf = &b"\x9A\x99\x99\x3F hello"[..];
    /// assert_eq!(1.2f32, buf.get_f32_le());
    /// assert_eq!(6, buf.remaining());
    /// ```
    ///
    /// ```
    /// use bytes::{Buf, TryGetError};
    ///
    /// let mut buf = &b"\x3F\x99\x99"[..];
    /// assert_eq!(Err(TryGetError{requested: 4, available: 3}), buf.try_get_f32_le());
    /// assert_eq!(3, buf.remaining());
    /// ```
    fn try_get_f32_le(&mut self) -> Result<f32, TryGetError> {
        Ok(f32::from_bits(self.try_get_u32_le()?))
    }

    /// Gets an IEEE754 single-precision (4 bytes) floating point number from
    /// `self` in native-endian byte order.
    ///
    /// The current position is advanced by 4.
    ///
    /// Returns `Err(TryGetError)` when there are not enough
    /// remaining bytes to read the value.
    ///
    /// # Examples
    ///
    /// ```
    /// use bytes::Buf;
    ///
    /// let mut buf: &[u8] = match cfg!(target_endian = "big") {
    ///     true => b"\x3F\x99\x99\x9A hello",
    ///     false => b"\x9A\x99\x99\x3F hello",
    /// };
    /// assert_eq!(1.2f32, buf.get_f32_ne());
    /// assert_eq!(6, buf.remaining());
    /// ```
    ///
    /// ```
    /// use bytes::{Buf, TryGetError};
    ///
    /// let mut buf = &b"\x3F\x99\x99"[..];
    /// assert_eq!(Err(TryGetError{requested: 4, available: 3}), buf.try_get_f32_ne());
    /// assert_eq!(3, buf.remaining());
    /// ```
    fn try_get_f32_ne(&mut self) -> Result<f32, TryGetError> {
        Ok(f32::from_bits(self.try_get_u32_ne()?))
    }

    /// Gets an IEEE754 double-precision (8 bytes) floating point number from
    /// `self` in big-endian byte order.
    ///
    /// The current position is advanced by 8.
    ///
    /// Returns `Err(TryGetError)` when there are not enough
    /// remaining bytes to read the value.
    ///
    /// # Examples
    ///
    /// ```
    /// use bytes::Buf;
    ///
    /// let mut buf = &b"\x3F\xF3\x33\x33\x33\x33\x33\x33 hello"[..];
    /// assert_eq!(1.2f64, buf.get_f64());
    /// assert_eq!(6, buf.remaining());
    /// ```
    ///
    /// ```
    /// use bytes::{Buf, TryGetError};
    ///
    /// let mut buf = &b"\x3F\xF3\x33\x33\x33\x33\x33"[..];
    /// assert_eq!(Err(TryGetError{requested: 8, available: 7}), buf.try_get_f64());
    /// assert_eq!(7, buf.remaining());
    /// ```
    fn try_get_f64(&mut self) -> Result<f64, TryGetError> {
        Ok(f64::from_bits(self.try_get_u64()?))
    }

    /// Gets an IEEE754 double-precision (8 bytes) floating point number from
    /// `self` in little-endian byte order.
    ///
    /// The current position is advanced by 8.
    ///
    /// Returns `Err(TryGetError)` when there are not enough
    /// remaining bytes to read the value.
    ///
    /// # Examples
    ///
    /// ```
    /// use bytes::Buf;
    ///
    /// let mut buf = &b"\x33\x33\x33\x33\x33\x33\xF3\x3F hello"[..];
    /// assert_eq!(1.2f64, buf.get_f64_le());
    /// assert_eq!(6, buf.remaining());
    /// ```
    ///
    /// ```
    /// use bytes::{Buf, TryGetError};
    ///
    /// let mut buf = &b"\x3F\xF3\x33\x33\x33\x33\x33"[..];
    /// assert_eq!(Err(TryGetError{requested: 8, available: 7}), buf.try_get_f64_le());
    /// assert_eq!(7, buf.remaining());
    /// ```
    fn try_get_f64_le(&mut self) -> Result<f64, TryGetError> {
        Ok(f64::from_bits(self.try_get_u64_le()?))
    }

    /// Gets an IEEE754 double-precision (8 bytes) floating point number from
    /// `self` in native-endian byte order.
    ///
    /// The current position is advanced by 8.
    ///
    /// Returns `Err(TryGetError)` when there are not enough
    /// remaining bytes to read the value.
    ///
    /// # Examples
    ///
    /// ```
    /// use bytes::Buf;
    ///
    /// let mut buf: &[u8] = match cfg!(target_endian = "big") {
    ///     true => b"\x3F\xF3\x33\x33\x33\x33\x33\x33 hello",
    ///     false => b"\x33\x33\x33\x33\x33\x33\xF3\x3F hello",
    /// };
    /// assert_eq!(1.2f64, buf.get_f64_ne());
    /// assert_eq!(6, buf.remaining());
    /// ```
    ///
    /// ```
    /// use bytes::{Buf, TryGetError};
    ///
    /// let mut buf = &b"\x3F\xF3\x33\x33\x33\x33\x33"[..];
    /// assert_eq!(Err(TryGetError{requested: 8, available: 7}), buf.try_get_f64_ne());
    /// assert_eq!(7, buf.remaining());
    /// ```
    fn try_get_f64_ne(&mut self) -> Result<f64, TryGetError> {
        Ok(f64::from_bits(self.try_get_u64_ne()?))
    }

    /// Consumes `len` bytes inside self and returns new instance of `Bytes`
    /// with this data.
    ///
    /// This function may be optimized by the underlying type to avoid actual
    /// copies. For example, `Bytes` implementation will do a shallow copy
    /// (ref-count increment).
    ///
    /// # Examples
    ///
    /// ```
    /// use bytes::Buf;
    ///
    /// let bytes = (&b"hello world"[..]).copy_to_bytes(5);
    /// assert_eq!(&bytes[..], &b"hello"[..]);
    /// ```
    ///
    /// # Panics
    ///
    /// This function panics if `len > self.remaining()`.
    fn copy_to_bytes(&mut self, len: usize) -> crate::Bytes {
        use super::BufMut;

        if self.remaining() < len {
            panic_advance(&TryGetError {
                requested: len,
                available: self.remaining(),
            });
        }

        let mut ret = crate::BytesMut::with_capacity(len);
        ret.put(self.take(len));
        ret.freeze()
    }

    /// Creates an adaptor which will read at most `limit` bytes from `self`.
    ///
    /// This function returns a new instance of `Buf` which will read at most
    /// `limit` bytes.
    ///
    /// # Examples
    ///
    /// ```
    /// use bytes::{Buf, BufMut};
    ///
    /// let mut buf = b"hello world"[..].take(5);
    /// let mut dst = vec![];
    ///
    /// dst.put(&mut buf);
    /// assert_eq!(dst, b"hello");
    ///
    /// let mut buf = buf.into_inner();
    /// dst.clear();
    /// dst.put(&mut buf);
    /// assert_eq!(dst, b" world");
    /// ```
    fn take(self, limit: usize) -> Take<Self>
    where
        Self: Sized,
    {
        take::new(self, limit)
    }

    /// Creates an adaptor which will chain this buffer with another.
    ///
    /// The returned `Buf` instance will first consume all bytes from `self`.
    /// Afterwards the output is equivalent to the output of next.
    ///
    /// # Examples
    ///
    /// ```
    /// use bytes::Buf;
    ///
    /// let mut chain = b"hello "[..].chain(&b"world"[..]);
    ///
    /// let full = chain.copy_to_bytes(11);
    /// assert_eq!(full.chunk(), b"hello world");
    /// ```
    fn chain<U: Buf>(self, next: U) -> Chain<Self, U>
    where
        Self: Sized,
    {
        Chain::new(self, next)
    }

    /// Creates an adaptor which implements the `Read` trait for `self`.
    ///
    /// This function returns a new value which implements `Read` by adapting
    /// the `Read` trait functions to the `Buf` trait functions. Given that
    /// `Buf` operations are infallible, none of the `Read` functions will
    /// return with `Err`.
    ///
    /// # Examples
    ///
    /// ```
    /// use bytes::{Bytes, Buf};
    /// use std::io::Read;
    ///
    /// let buf = Bytes::from("hello world");
    ///
    /// let mut reader = buf.reader();
    /// let mut dst = [0; 1024];
    ///
    /// let num = reader.read(&mut dst).unwrap();
    ///
    /// assert_eq!(11, num);
    /// assert_eq!(&dst[..11], &b"hello world"[..]);
    /// ```
    #[cfg(feature = "std")]
    #[cfg_attr(docsrs, doc(cfg(feature = "std")))]
    fn reader(self) -> Reader<Self>
    where
        Self: Sized,
    {
        reader::new(self)
    }
}

macro_rules! deref_forward_buf {
    () => {
        #[inline]
        fn remaining(&self) -> usize {
            (**self).remaining()
        }

        #[inline]
        fn chunk(&self) -> &[u8] {
            (**self).chunk()
        }

        #[cfg(feature = "std")]
        #[inline]
        fn chunks_vectored<'b>(&'b self, dst: &mut [IoSlice<'b>]) -> usize {
            (**self).chunks_vectored(dst)
        }

        #[inline]
        fn advance(&mut self, cnt: usize) {
            (**self).advance(cnt)
        }

        #[inline]
        fn has_remaining(&self) -> bool {
            (**self).has_remaining()
        }

        #[inline]
        fn copy_to_slice(&mut self, dst: &mut [u8]) {
            (**self).copy_to_slice(dst)
        }

        #[inline]
        fn get_u8(&mut self) -> u8 {
            (**self).get_u8()
        }

        #[inline]
        fn get_i8(&mut self) -> i8 {
            (**self).get_i8()
        }

        #[inline]
        fn get_u16(&mut self) -> u16 {
            (**self).get_u16()
        }

        #[inline]
        fn get_u16_le(&mut self) -> u16 {
            (**self).get_u16_le()
        }

        #[inline]
        fn get_u16_ne(&mut self) -> u16 {
            (**self).get_u16_ne()
        }

        #[inline]
        fn get_i16(&mut self) -> i16 {
            (**self).get_i16()
        }

        #[inline]
        fn get_i16_le(&mut self) -> i16 {
            (**self).get_i16_le()
        }

        #[inline]
        fn get_i16_ne(&mut self) -> i16 {
            (**self).get_i16_ne()
        }

        #[inline]
        fn get_u32(&mut self) -> u32 {
            (**self).get_u32()
        }

        #[inline]
        fn get_u32_le(&mut self) -> u32 {
            (**self).get_u32_le()
        }

        #[inline]
        fn get_u32_ne(&mut self) -> u32 {
            (**self).get_u32_ne()
        }

        #[inline]
        fn get_i32(&mut self) -> i32 {
            (**self).get_i32()
        }

        #[inline]
        fn get_i32_le(&mut self) -> i32 {
            (**self).get_i32_le()
        }

        #[inline]
        fn get_i32_ne(&mut self) -> i32 {
            (**self).get_i32_ne()
        }

        #[inline]
        fn get_u64(&mut self) -> u64 {
            (**self).get_u64()
        }

        #[inline]
        fn get_u64_le(&mut self) -> u64 {
            (**self).get_u64_le()
        }

        #[inline]
        fn get_u64_ne(&mut self) -> u64 {
            (**self).get_u64_ne()
        }

        #[inline]
        fn get_i64(&mut self) -> i64 {
            (**self).get_i64()
        }

        #[inline]
        fn get_i64_le(&mut self) -> i64 {
            (**self).get_i64_le()
        }

        #[inline]
        fn get_i64_ne(&mut self) -> i64 {
            (**self).get_i64_ne()
        }

        #[inline]
        fn get_u128(&mut self) -> u128 {
            (**self).get_u128()
        }

        #[inline]
        fn get_u128_le(&mut self) -> u128 {
            (**self).get_u128_le()
        }

        #[inline]
        fn get_u128_ne(&mut self) -> u128 {
            (**self).get_u128_ne()
        }

        #[inline]
        fn get_i128(&mut self) -> i128 {
            (**self).get_i128()
        }

        #[inline]
        fn get_i128_le(&mut self) -> i128 {
            (**self).get_i128_le()
        }

        #[inline]
        fn get_i128_ne(&mut self) -> i128 {
            (**self).get_i128_ne()
        }

        #[inline]
        fn get_uint(&mut self, nbytes: usize) -> u64 {
            (**self).get_uint(nbytes)
        }

        #[inline]
        fn get_uint_le(&mut self, nbytes: usize) -> u64 {
            (**self).get_uint_le(nbytes)
        }

        #[inline]
        fn get_uint_ne(&mut self, nbytes: usize) -> u64 {
            (**self).get_uint_ne(nbytes)
        }

        #[inline]
        fn get_int(&mut self, nbytes: usize) -> i64 {
            (**self).get_int(nbytes)
        }

        #[inline]
        fn get_int_le(&mut self, nbytes: usize) -> i64 {
            (**self).get_int_le(nbytes)
        }

        #[inline]
        fn get_int_ne(&mut self, nbytes: usize) -> i64 {
            (**self).get_int_ne(nbytes)
        }

        #[inline]
        fn get_f32(&mut self) -> f32 {
            (**self).get_f32()
        }

        #[inline]
        fn get_f32_le(&mut self) -> f32 {
            (**self).get_f32_le()
        }

        #[inline]
        fn get_f32_ne(&mut self) -> f32 {
            (**self).get_f32_ne()
        }

        #[inline]
        fn get_f64(&mut self) -> f64 {
            (**self).get_f64()
        }

        #[inline]
        fn get_f64_le(&mut self) -> f64 {
            (**self).get_f64_le()
        }

        #[inline]
        fn get_f64_ne(&mut self) -> f64 {
            (**self).get_f64_ne()
        }

        #[inline]
        fn try_copy_to_slice(&mut self, dst: &mut [u8]) -> Result<(), TryGetError> {
            (**self).try_copy_to_slice(dst)
        }

        #[inline]
        fn try_get_u8(&mut self) -> Result<u8, TryGetError> {
            (**self).try_get_u8()
        }

        #[inline]
        fn try_get_i8(&mut self) -> Result<i8, TryGetError> {
            (**self).try_get_i8()
        }

        #[inline]
        fn try_get_u16(&mut self) -> Result<u16, TryGetError> {
            (**self).try_get_u16()
        }

        #[inline]
        fn try_get_u16_le(&mut self) -> Result<u16, TryGetError> {
            (**self).try_get_u16_le()
        }

        #[inline]
        fn try_get_u16_ne(&mut self) -> Result<u16, TryGetError> {
            (**self).try_get_u16_ne()
        }

        #[inline]
        fn try_get_i16(&mut self) -> Result<i16, TryGetError> {
            (**self).try_get_i16()
        }

        #[inline]
        fn try_get_i16_le(&mut self) -> Result<i16, TryGetError> {
            (**self).try_get_i16_le()
        }

        #[inline]
        fn try_get_i16_ne(&mut self) -> Result<i16, TryGetError> {
            (**self).try_get_i16_ne()
        }

        #[inline]
        fn try_get_u32(&mut self) -> Result<u32, TryGetError> {
            (**self).try_get_u32()
        }

        #[inline]
        fn try_get_u32_le(&mut self) -> Result<u32, TryGetError> {
            (**self).try_get_u32_le()
        }

        #[inline]
        fn try_get_u32_ne(&mut self) -> Result<u32, TryGetError> {
            (**self).try_get_u32_ne()
        }

        #[inline]
        fn try_get_i32(&mut self) -> Result<i32, TryGetError> {
            (**self).try_get_i32()
        }

        #[inline]
        fn try_get_i32_le(&mut self) -> Result<i32, TryGetError> {
            (**self).try_get_i32_le()
        }

        #[inline]
        fn try_get_i32_ne(&mut self) -> Result<i32, TryGetError> {
            (**self).try_get_i32_ne()
        }

        #[inline]
        fn try_get_u64(&mut self) -> Result<u64, TryGetError> {
            (**self).try_get_u64()
        }

        #[inline]
        fn try_get_u64_le(&mut self) -> Result<u64, TryGetError> {
            (**self).try_get_u64_le()
        }

        #[inline]
        fn try_get_u64_ne(&mut self) -> Result<u64, TryGetError> {
            (**self).try_get_u64_ne()
        }

        #[inline]
        fn try_get_i64(&mut self) -> Result<i64, TryGetError> {
            (**self).try_get_i64()
        }

        #[inline]
        fn try_get_i64_le(&mut self) -> Result<i64, TryGetError> {
            (**self).try_get_i64_le()
        }

        #[inline]
        fn try_get_i64_ne(&mut self) -> Result<i64, TryGetError> {
            (**self).try_get_i64_ne()
        }

        #[inline]
        fn try_get_u128(&mut self) -> Result<u128, TryGetError> {
            (**self).try_get_u128()
        }

        #[inline]
        fn try_get_u128_le(&mut self) -> Result<u128, TryGetError> {
            (**self).try_get_u128_le()
        }

        #[inline]
        fn try_get_u128_ne(&mut self) -> Result<u128, TryGetError> {
            (**self).try_get_u128_ne()
        }

        #[inline]
        fn try_get_i128(&mut self) -> Result<i128, TryGetError> {
            (**self).try_get_i128()
        }

        #[inline]
        fn try_get_i128_le(&mut self) -> Result<i128, TryGetError> {
            (**self).try_get_i128_le()
        }

        #[inline]
        fn try_get_i128_ne(&mut self) -> Result<i128, TryGetError> {
            (**self).try_get_i128_ne()
        }

        #[inline]
        fn try_get_uint(&mut self, nbytes: usize) -> Result<u64, TryGetError> {
            (**self).try_get_uint(nbytes)
        }

        #[inline]
        fn try_get_uint_le(&mut self, nbytes: usize) -> Result<u64, TryGetError> {
            (**self).try_get_uint_le(nbytes)
        }

        #[inline]
        fn try_get_uint_ne(&mut self, nbytes: usize) -> Result<u64, TryGetError> {
            (**self).try_get_uint_ne(nbytes)
        }

        #[inline]
        fn try_get_int(&mut self, nbytes: usize) -> Result<i64, TryGetError> {
            (**self).try_get_int(nbytes)
        }

        #[inline]
        fn try_get_int_le(&mut self, nbytes: usize) -> Result<i64, TryGetError> {
            (**self).try_get_int_le(nbytes)
        }

        #[inline]
        fn try_get_int_ne(&mut self, nbytes: usize) -> Result<i64, TryGetError> {
            (**self).try_get_int_ne(nbytes)
        }

        #[inline]
        fn try_get_f32(&mut self) -> Result<f32, TryGetError> {
            (**self).try_get_f32()
        }

        #[inline]
        fn try_get_f32_le(&mut self) -> Result<f32, TryGetError> {
            (**self).try_get_f32_le()
        }

        #[inline]
        fn try_get_f32_ne(&mut self) -> Result<f32, TryGetError> {
            (**self).try_get_f32_ne()
        }

        #[inline]
        fn try_get_f64(&mut self) -> Result<f64, TryGetError> {
            (**self).try_get_f64()
        }

        #[inline]
        fn try_get_f64_le(&mut self) -> Result<f64, TryGetError> {
            (**self).try_get_f64_le()
        }

        #[inline]
        fn try_get_f64_ne(&mut self) -> Result<f64, TryGetError> {
            (**self).try_get_f64_ne()
        }

        #[inline]
        fn copy_to_bytes(&mut self, len: usize) -> crate::Bytes {
            (**self).copy_to_bytes(len)
        }
    };
}

impl<T: Buf + ?Sized> Buf for &mut T {
    deref_forward_buf!();
}

impl<T: Buf + ?Sized> Buf for Box<T> {
    deref_forward_buf!();
}

impl Buf for &[u8] {
    #[inline]
    fn remaining(&self) -> usize {
        self.len()
    }

    #[inline]
    fn chunk(&self) -> &[u8] {
        self
    }

    #[inline]
    fn advance(&mut self, cnt: usize) {
        if self.len() < cnt {
            panic_advance(&TryGetError {
                requested: cnt,
                available: self.len(),
            });
        }

        *self = &self[cnt..];
    }

    #[inline]
    fn copy_to_slice(&mut self, dst: &mut [u8]) {
        if self.len() < dst.len() {
            panic_advance(&TryGetError {
                requested: dst.len(),
                available: self.len(),
            });
        }

        dst.copy_from_slice(&self[..dst.len()]);
        self.advance(dst.len());
    }
}

#[cfg(feature = "std")]
impl<T: AsRef<[u8]>> Buf for std::io::Cursor<T> {
    #[inline]
    fn remaining(&self) -> usize {
        saturating_sub_usize_u64(self.get_ref().as_ref().len(), self.position())
    }

    #[inline]
    fn chunk(&self) -> &[u8] {
        let slice = self.get_ref().as_ref();
        let pos = min_u64_usize(self.position(), slice.len());
        &slice[pos..]
    }

    #[inline]
    fn advance(&mut self, cnt: usize) {
        let len = self.get_ref().as_ref().len();
        let pos = self.position();

        // We intentionally allow `cnt == 0` here even if `pos > len`.
        let max_cnt = saturating_sub_usize_u64(len, pos);
        if cnt > max_cnt {
            panic_advance(&TryGetError {
                requested: cnt,
                available: max_cnt,
            });
        }

        // This will not overflow because either `cnt == 0` or the sum is not
        // greater than `len`.
        self.set_position(pos + cnt as u64);
    }
}

// The existence of this function makes the compiler catch if the Buf
// trait is "object-safe" or not.
fn _assert_trait_object(_b: &dyn Buf) {}
