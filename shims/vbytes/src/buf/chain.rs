use crate::buf::{IntoIter, UninitSlice};
use crate::{Buf, BufMut};

#[cfg(feature = "std")]
use std::io::IoSlice;

/// A `Chain` sequences two buffers.
///
/// `Chain` is an adapter that links two underlying buffers and provides a
/// continuous view across both buffers. It is able to sequence either immutable
/// buffers ([`Buf`] values) or mutable buffers ([`BufMut`] values).
///
/// This struct is generally created by calling [`Buf::chain`]. Please see that
/// function's documentation for more detail.
///
/// # Examples
///
/// ```
/// use bytes::{Bytes, Buf};
///
/// let mut buf = (&b"hello "[..])
///     .chain(&b"world"[..]);
///
/// let full: Bytes = buf.copy_to_bytes(11);
/// assert_eq!(full[..], b"hello world"[..]);
/// ```
///
/// [`Buf::chain`]: Buf::chain
#[derive(Debug)]
pub struct Chain<T, U> {
    a: T,
    b: U,
}

impl<T, U> Chain<T, U> {
    /// Creates a new `Chain` sequencing the provided values.
    pub(crate) fn new(a: T, b: U) -> Chain<T, U> {
        Chain { a, b }
    }

    /// Gets a reference to the first underlying `Buf`.
    ///
    /// # Examples
    ///
    /// ```
    /// use bytes::Buf;
    ///
    /// let buf = (&b"hello"[..])
    ///     .chain(&b"world"[..]);
    ///
    /// assert_eq!(buf.first_ref()[..], b"hello"[..]);
    /// ```
    pub fn first_ref(&self) -> &T {
        &self.a
    }

    /// Gets a mutable reference to the first underlying `Buf`.
    ///
    /// # Examples
    ///
    /// ```
    /// use bytes::Buf;
    ///
    /// let mut buf = (&b"hello"[..])
    ///     .chain(&b"world"[..]);
    ///
    /// buf.first_mut().advance(1);
    ///
    /// let full = buf.copy_to_bytes(9);
    /// assert_eq!(full, b"elloworld"[..]);
    /// ```
    pub fn first_mut(&mut self) -> &mut T {
        &mut self.a
    }

    /// Gets a reference to the last underlying `Buf`.
    ///
    /// # Examples
    ///
    /// ```
    /// use bytes::Buf;
    ///
    /// let buf = (&b"hello"[..])
    ///     .chain(&b"world"[..]);
    ///
    /// assert_eq!(buf.last_ref()[..], b"world"[..]);
    /// ```
    pub fn last_ref(&self) -> &U {
        &self.b
    }

    /// Gets a mutable reference to the last underlying `Buf`.
    ///
    /// # Examples
    ///
    /// ```
    /// use bytes::Buf;
    ///
    /// let mut buf = (&b"hello "[..])
    ///     .chain(&b"world"[..]);
    ///
    /// buf.last_mut().advance(1);
    ///
    /// let full = buf.copy_to_bytes(10);
    /// assert_eq!(full, b"hello orld"[..]);
    /// ```
    pub fn last_mut(&mut self) -> &mut U {
        &mut self.b
    }

    /// Consumes this `Chain`, returning the underlying values.
    ///
    /// # Examples
    ///
    /// ```
    /// use bytes::Buf;
    ///
    /// let chain = (&b"hello"[..])
    ///     .chain(&b"world"[..]);
    ///
    /// let (first, last) = chain.into_inner();
    /// assert_eq!(first[..], b"hello"[..]);
    /// assert_eq!(last[..], b"world"[..]);
    /// ```
    pub fn into_inner(self) -> (T, U) {
        (self.a, self.b)
    }
}

impl<T, U> Buf for Chain<T, U>
where
    T: Buf,
    U: Buf,
{
    fn remaining(&self) -> usize {
        self.a.remaining().saturating_add(self.b.remaining())
    }

    fn chunk(&self) -> &[u8] {
        if self.a.has_remaining() {
            self.a.chunk()
        } else {
            self.b.chunk()
        }
    }

    fn advance(&mut self, mut cnt: usize) {
        let a_rem = self.a.remaining();

        if a_rem != 0 {
            if a_rem >= cnt {
                self.a.advance(cnt);
                return;
            }

            // Consume what is left of a
            self.a.advance(a_rem);

            cnt -= a_rem;
        }

        self.b.advance(cnt);
    }

    #[cfg(feature = "std")]
    fn chunks_vectored<'a>(&'a self, dst: &mut [IoSlice<'a>]) -> usize {
        let mut n = self.a.chunks_vectored(dst);
        n += self.b.chunks_vectored(&mut dst[n..]);
        n
    }

    fn copy_to_bytes(&mut self, len: usize) -> crate::Bytes {
        let a_rem = self.a.remaining();
        if a_rem >= len {
            self.a.copy_to_bytes(len)
        } else if a_rem == 0 {
            self.b.copy_to_bytes(len)
        } else {
            assert!(
                len - a_rem <= self.b.remaining(),
                "`len` greater than remaining"
            );
            let mut ret = crate::BytesMut::with_capacity(len);
            ret.put(&mut self.a);
            ret.put((&mut self.b).take(len - a_rem));
            ret.freeze()
        }
    }
}

unsafe impl<T, U> BufMut for Chain<T, U>
where
    T: BufMut,
    U: BufMut,
{
    fn remaining_mut(&self) -> usize {
        self.a
            .remaining_mut()
            .saturating_add(self.b.remaining_mut())
    }

    fn chunk_mut(&mut self) -> &mut UninitSlice {
        if self.a.has_remaining_mut() {
            self.a.chunk_mut()
        } else {
            self.b.chunk_mut()
        }
    }

    unsafe fn advance_mut(&mut self, mut cnt: usize) {
        let a_rem = self.a.remaining_mut();

        if a_rem != 0 {
            if a_rem >= cnt {
                self.a.advance_mut(cnt);
                return;
            }

            // Consume what is left of a
            self.a.advance_mut(a_rem);

            cnt -= a_rem;
        }

        self.b.advance_mut(cnt);
    }
}

impl<T, U> IntoIterator for Chain<T, U>
where
    T: Buf,
    U: Buf,
{
    type Item = u8;
    type IntoIter = IntoIter<Chain<T, U>>;

    fn into_iter(self) -> Self::IntoIter {
        IntoIter::new(self)
    }
}
