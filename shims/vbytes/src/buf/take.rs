use crate::Buf;

use core::cmp;

#[cfg(feature = "std")]
use std::io::IoSlice;

/// A `Buf` adapter which limits the bytes read from an underlying buffer.
///
/// This struct is generally created by calling `take()` on `Buf`. See
/// documentation of [`take()`](Buf::take) for more details.
#[derive(Debug)]
pub struct Take<T> {
    inner: T,
    limit: usize,
}

pub fn new<T>(inner: T, limit: usize) -> Take<T> {
    Take { inner, limit }
}

impl<T> Take<T> {
    /// Consumes this `Take`, returning the underlying value.
    ///
    /// # Examples
    ///
    /// ```rust
    /// use bytes::{Buf, BufMut};
    ///
    /// let mut buf = b"hello world".take(2);
    /// let mut dst = vec![];
    ///
    /// dst.put(&mut buf);
    /// assert_eq!(*dst, b"he"[..]);
    ///
    /// let mut buf = buf.into_inner();
    ///
    /// dst.clear();
    /// dst.put(&mut buf);
    /// assert_eq!(*dst, b"llo world"[..]);
    /// ```
    pub fn into_inner(self) -> T {
        self.inner
    }

    /// Gets a reference to the underlying `Buf`.
    ///
    /// It is inadvisable to directly read from the underlying `Buf`.
    ///
    /// # Examples
    ///
    /// ```rust
    /// use bytes::Buf;
    ///
    /// let buf = b"hello world".take(2);
    ///
    /// assert_eq!(11, buf.get_ref().remaining());
    /// ```
    pub fn get_ref(&self) -> &T {
        &self.inner
    }

    /// Gets a mutable reference to the underlying `Buf`.
    ///
    /// It is inadvisable to directly read from the underlying `Buf`.
    ///
    /// # Examples
    ///
    /// ```rust
    /// use bytes::{Buf, BufMut};
    ///
    /// let mut buf = b"hello world".take(2);
    /// let mut dst = vec![];
    ///
    /// buf.get_mut().advance(2);
    ///
    /// dst.put(&mut buf);
    /// assert_eq!(*dst, b"ll"[..]);
    /// ```
    pub fn get_mut(&mut self) -> &mut T {
        &mut self.inner
    }

    /// Returns the maximum number of bytes that can be read.
    ///
    /// # Note
    ///
    /// If the inner `Buf` has fewer bytes than indicated by this method then
    /// that is the actual number of available bytes.
    ///
    /// # Examples
    ///
    /// ```rust
    /// use bytes::Buf;
    ///
    /// let mut buf = b"hello world".take(2);
    ///
    /// assert_eq!(2, buf.limit());
    /// assert_eq!(b'h', buf.get_u8());
    /// assert_eq!(1, buf.limit());
    /// ```
    pub fn limit(&self) -> usize {
        self.limit
    }

    /// Sets the maximum number of bytes that can be read.
    ///
    /// # Note
    ///
    /// If the inner `Buf` has fewer bytes than `lim` then that is the actual
    /// number of available bytes.
    ///
    /// # Examples
    ///
    /// ```rust
    /// use bytes::{Buf, BufMut};
    ///
    /// let mut buf = b"hello world".take(2);
    /// let mut dst = vec![];
    ///
    /// dst.put(&mut buf);
    /// assert_eq!(*dst, b"he"[..]);
    ///
    /// dst.clear();
    ///
    /// buf.set_limit(3);
    /// dst.put(&mut buf);
    /// assert_eq!(*dst, b"llo"[..]);
    /// ```
    pub fn set_limit(&mut self, lim: usize) {
        self.limit = lim
    }
}

impl<T: Buf> Buf for Take<T> {
    fn remaining(&self) -> usize {
        cmp::min(self.inner.remaining(), self.limit)
    }

    fn chunk(&self) -> &[u8] {
        let bytes = self.inner.chunk();
        &bytes[..cmp::min(bytes.len(), self.limit)]
    }

    fn advance(&mut self, cnt: usize) {
        assert!(cnt <= self.limit);
        self.inner.advance(cnt);
        self.limit -= cnt;
    }

    fn copy_to_bytes(&mut self, len: usize) -> crate::Bytes {
        assert!(len <= self.remaining(), "`len` greater than remaining");

        let r = self.inner.copy_to_bytes(len);
        self.limit -= len;
        r
    }

    #[cfg(feature = "std")]
    fn chunks_vectored<'a>(&'a self, dst: &mut [IoSlice<'a>]) -> usize {
        if self.limit == 0 {
            return 0;
        }

        const LEN: usize = 16;
        let mut slices: [IoSlice<'a>; LEN] = [IoSlice::new(&[]); LEN];

        let cnt = self
            .inner
            .chunks_vectored(&mut slices[..dst.len().min(LEN)]);
        let mut limit = self.limit;
        for (i, (dst, slice)) in dst[..cnt].iter_mut().zip(slices.iter()).enumerate() {
            if let Some(buf) = slice.get(..limit) {
                // SAFETY: We could do this safely with `IoSlice::advance` if we had a larger MSRV.
                let buf = unsafe { std::mem::transmute::<&[u8], &'a [u8]>(buf) };
                *dst = IoSlice::new(buf);
                return i + 1;
            } else {
                // SAFETY: We could do this safely with `IoSlice::advance` if we had a larger MSRV.
                let buf = unsafe { std::mem::transmute::<&[u8], &'a [u8]>(slice) };
                *dst = IoSlice::new(buf);
                limit -= slice.len();
            }
        }
        cnt
    }
}
