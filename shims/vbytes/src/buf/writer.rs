use crate::BufMut;

use std::{cmp, io};

/// A `BufMut` adapter which implements `io::Write` for the inner value.
///
/// This struct is generally created by calling `writer()` on `BufMut`. See
/// documentation of [`writer()`](BufMut::writer) for more
/// details.
#[derive(Debug)]
pub struct Writer<B> {
    buf: B,
}

pub fn new<B>(buf: B) -> Writer<B> {
    Writer { buf }
}

impl<B: BufMut> Writer<B> {
    /// Gets a reference to the underlying `BufMut`.
    ///
    /// It is inadvisable to directly write to the underlying `BufMut`.
    ///
    /// # Examples
    ///
    /// ```rust
    /// use bytes::BufMut;
    ///
    /// let buf = Vec::with_capacity(1024).writer();
    ///
    /// assert_eq!(1024, buf.get_ref().capacity());
    /// ```
    pub fn get_ref(&self) -> &B {
        &self.buf
    }

    /// Gets a mutable reference to the underlying `BufMut`.
    ///
    /// It is inadvisable to directly write to the underlying `BufMut`.
    ///
    /// # Examples
    ///
    /// ```rust
    /// use bytes::BufMut;
    ///
    /// let mut buf = vec![].writer();
    ///
    /// buf.get_mut().reserve(1024);
    ///
    /// assert_eq!(1024, buf.get_ref().capacity());
    /// ```
    pub fn get_mut(&mut self) -> &mut B {
        &mut self.buf
    }

    /// Consumes this `Writer`, returning the underlying value.
    ///
    /// # Examples
    ///
    /// ```rust
    /// use bytes::BufMut;
    /// use std::io;
    ///
    /// let mut buf = vec![].writer();
    /// let mut src = &b"hello world"[..];
    ///
    /// io::copy(&mut src, &mut buf).unwrap();
    ///
    /// let buf = buf.into_inner();
    /// assert_eq!(*buf, b"hello world"[..]);
    /// ```
    pub fn into_inner(self) -> B {
        self.buf
    }
}

impl<B: BufMut + Sized> io::Write for Writer<B> {
    fn write(&mut self, src: &[u8]) -> io::Result<usize> {
        let n = cmp::min(self.buf.remaining_mut(), src.len());

        self.buf.put_slice(&src[..n]);
        Ok(n)
    }

    fn flush(&mut self) -> io::Result<()> {
        Ok(())
    }
}
