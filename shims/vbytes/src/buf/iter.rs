use crate::Buf;

/// Iterator over the bytes contained by the buffer.
///
/// # Examples
///
/// Basic usage:
///
/// ```
/// use bytes::Bytes;
///
/// let buf = Bytes::from(&b"abc"[..]);
/// let mut iter = buf.into_iter();
///
/// assert_eq!(iter.next(), Some(b'a'));
/// assert_eq!(iter.next(), Some(b'b'));
/// assert_eq!(iter.next(), Some(b'c'));
/// assert_eq!(iter.next(), None);
/// ```
#[derive(Debug)]
pub struct IntoIter<T> {
    inner: T,
}

impl<T> IntoIter<T> {
    /// Creates an iterator over the bytes contained by the buffer.
    ///
    /// # Examples
    ///
    /// ```
    /// use bytes::Bytes;
    ///
    /// let buf = Bytes::from_static(b"abc");
    /// let mut iter = buf.into_iter();
    ///
    /// assert_eq!(iter.next(), Some(b'a'));
    /// assert_eq!(iter.next(), Some(b'b'));
    /// assert_eq!(iter.next(), Some(b'c'));
    /// assert_eq!(iter.next(), None);
    /// ```
    pub fn new(inner: T) -> IntoIter<T> {
        IntoIter { inner }
    }

    /// Consumes this `IntoIter`, returning the underlying value.
    ///
    /// # Examples
    ///
    /// ```rust
    /// use bytes::{Buf, Bytes};
    ///
    /// let buf = Bytes::from(&b"abc"[..]);
    /// let mut iter = buf.into_iter();
    ///
    /// assert_eq!(iter.next(), Some(b'a'));
    ///
    /// let buf = iter.into_inner();
    /// assert_eq!(2, buf.remaining());
    /// ```
    pub fn into_inner(self) -> T {
        self.inner
    }

    /// Gets a reference to the underlying `Buf`.
    ///
    /// It is inadvisable to directly read from the underlying `Buf`.
    ///
    /// # Examples
    ///
    /// ```rust
    /// use bytes::{Buf, Bytes};
    ///
    /// let buf = Bytes::from(&b"abc"[..]);
    /// let mut iter = buf.into_iter();
    ///
    /// assert_eq!(iter.next(), Some(b'a'));
    ///
    /// assert_eq!(2, iter.get_ref().remaining());
    /// ```
    pub fn get_ref(&self) -> &T {
        &self.inner
    }

    /// Gets a mutable reference to the underlying `Buf`.
    ///
    /// It is inadvisable to directly read from the underlying `Buf`.
    ///
    /// # Examples
    ///
    /// ```rust
    /// use bytes::{Buf, BytesMut};
    ///
    /// let buf = BytesMut::from(&b"abc"[..]);
    /// let mut iter = buf.into_iter();
    ///
    /// assert_eq!(iter.next(), Some(b'a'));
    ///
    /// iter.get_mut().advance(1);
    ///
    /// assert_eq!(iter.next(), Some(b'c'));
    /// ```
    pub fn get_mut(&mut self) -> &mut T {
        &mut self.inner
    }
}

impl<T: Buf> Iterator for IntoIter<T> {
    type Item = u8;

    fn next(&mut self) -> Option<u8> {
        if !self.inner.has_remaining() {
            return None;
        }

        let b = self.inner.chunk()[0];
        self.inner.advance(1);

        Some(b)
    }

    fn size_hint(&self) -> (usize, Option<usize>) {
        let rem = self.inner.remaining();
        (rem, Some(rem))
    }
}

impl<T: Buf> ExactSizeIterator for IntoIter<T> {}
