use crate::Buf;

use std::{cmp, io};

/// A `Buf` adapter which implements `io::Read` for the inner value.
///
/// This struct is generally created by calling `reader()` on `Buf`. See
/// documentation of [`reader()`](Buf::reader) for more
/// details.
#[derive(Debug)]
pub struct Reader<B> {
    buf: B,
}

pub fn new<B>(buf: B) -> Reader<B> {
    Reader { buf }
}

impl<B: Buf> Reader<B> {
    /// Gets a reference to the underlying `Buf`.
    ///
    /// It is inadvisable to directly read from the underlying `Buf`.
    ///
    /// # Examples
    ///
    /// ```rust
    /// use bytes::Buf;
    ///
    /// let buf = b"hello world".reader();
    ///
    /// assert_eq!(b"hello world", buf.get_ref());
    /// ```
    pub fn get_ref(&self) -> &B {
        &self.buf
    }

    /// Gets a mutable reference to the underlying `Buf`.
    ///
    /// It is inadvisable to directly read from the underlying `Buf`.
    pub fn get_mut(&mut self) -> &mut B {
        &mut self.buf
    }

    /// Consumes this `Reader`, returning the underlying value.
    ///
    /// # Examples
    ///
    /// ```rust
    /// use bytes::Buf;
    /// use std::io;
    ///
    /// let mut buf = b"hello world".reader();
    /// let mut dst = vec![];
    ///
    /// io::copy(&mut buf, &mut dst).unwrap();
    ///
    /// let buf = buf.into_inner();
    /// assert_eq!(0, buf.remaining());
    /// ```
    pub fn into_inner(self) -> B {
        self.buf
    }
}

impl<B: Buf + Sized> io::Read for Reader<B> {
    fn read(&mut self, dst: &mut [u8]) -> io::Result<usize> {
        let len = cmp::min(self.buf.remaining(), dst.len());

        Buf::copy_to_slice(&mut self.buf, &mut dst[0..len]);
        Ok(len)
    }
}

impl<B: Buf + Sized> io::BufRead for Reader<B> {
    fn fill_buf(&mut self) -> io::Result<&[u8]> {
        Ok(self.buf.chunk())
    }
    fn consume(&mut self, amt: usize) {
        self.buf.advance(amt)
    }
}
