use crate::buf::UninitSlice;
use crate::BufMut;

use core::cmp;

/// A `BufMut` adapter which limits the amount of bytes that can be written
/// to an underlying buffer.
#[derive(Debug)]
pub struct Limit<T> {
    inner: T,
    limit: usize,
}

pub(super) fn new<T>(inner: T, limit: usize) -> Limit<T> {
    Limit { inner, limit }
}

impl<T> Limit<T> {
    /// Consumes this `Limit`, returning the underlying value.
    pub fn into_inner(self) -> T {
        self.inner
    }

    /// Gets a reference to the underlying `BufMut`.
    ///
    /// It is inadvisable to directly write to the underlying `BufMut`.
    pub fn get_ref(&self) -> &T {
        &self.inner
    }

    /// Gets a mutable reference to the underlying `BufMut`.
    ///
    /// It is inadvisable to directly write to the underlying `BufMut`.
    pub fn get_mut(&mut self) -> &mut T {
        &mut self.inner
    }

    /// Returns the maximum number of bytes that can be written
    ///
    /// # Note
    ///
    /// If the inner `BufMut` has fewer bytes than indicated by this method then
    /// that is the actual number of available bytes.
    pub fn limit(&self) -> usize {
        self.limit
    }

    /// Sets the maximum number of bytes that can be written.
    ///
    /// # Note
    ///
    /// If the inner `BufMut` has fewer bytes than `lim` then that is the actual
    /// number of available bytes.
    pub fn set_limit(&mut self, lim: usize) {
        self.limit = lim
    }
}

unsafe impl<T: BufMut> BufMut for Limit<T> {
    fn remaining_mut(&self) -> usize {
        cmp::min(self.inner.remaining_mut(), self.limit)
    }

    fn chunk_mut(&mut self) -> &mut UninitSlice {
        let bytes = self.inner.chunk_mut();
        let end = cmp::min(bytes.len(), self.limit);
        &mut bytes[..end]
    }

    unsafe fn advance_mut(&mut self, cnt: usize) {
        assert!(cnt <= self.limit);
        self.inner.advance_mut(cnt);
        self.limit -= cnt;
    }
}
