//! Utilities for working with buffers.
//!
//! A buffer is any structure that contains a sequence of bytes. The bytes may
//! or may not be stored in contiguous memory. This module contains traits used
//! to abstract over buffers as well as utilities for working with buffer types.
//!
//! # `Buf`, `BufMut`
//!
//! These are the two foundational traits for abstractly working with buffers.
//! They can be thought as iterators for byte structures. They offer additional
//! performance over `Iterator` by providing an API optimized for byte slices.
//!
//! See [`Buf`] and [`BufMut`] for more details.
//!
//! [rope]: https://en.wikipedia.org/wiki/Rope_(data_structure)

mod buf_impl;
mod buf_mut;
mod chain;
mod iter;
mod limit;
#[cfg(feature = "std")]
mod reader;
mod take;
mod uninit_slice;
mod vec_deque;
#[cfg(feature = "std")]
mod writer;

pub use self::buf_impl::Buf;
pub use self::buf_mut::BufMut;
pub use self::chain::Chain;
pub use self::iter::IntoIter;
pub use self::limit::Limit;
pub use self::take::Take;
pub use self::uninit_slice::UninitSlice;

#[cfg(feature = "std")]
pub use self::{reader::Reader, writer::Writer};
