use core::fmt;
use core::mem::MaybeUninit;
use core::ops::{
    Index, IndexMut, Range, RangeFrom, RangeFull, RangeInclusive, RangeTo, RangeToInclusive,
};

/// Uninitialized byte slice.
///
/// Returned by `BufMut::chunk_mut()`, the referenced byte slice may be
/// uninitialized. The wrapper provides safe access without introducing
/// undefined behavior.
///
/// The safety invariants of this wrapper are:
///
///  1. Reading from an `UninitSlice` is undefined behavior.
///  2. Writing uninitialized bytes to an `UninitSlice` is undefined behavior.
///
/// The difference between `&mut UninitSlice` and `&mut [MaybeUninit<u8>]` is
/// that it is possible in safe code to write uninitialized bytes to an
/// `&mut [MaybeUninit<u8>]`, which this type prohibits.
#[repr(transparent)]
pub struct UninitSlice([MaybeUninit<u8>]);

impl UninitSlice {
    /// Creates a `&mut UninitSlice` wrapping a slice of initialised memory.
    ///
    /// # Examples
    ///
    /// ```
    /// use bytes::buf::UninitSlice;
    ///
    /// let mut buffer = [0u8; 64];
    /// let slice = UninitSlice::new(&mut buffer[..]);
    /// ```
    #[inline]
    pub fn new(slice: &mut [u8]) -> &mut UninitSlice {
        unsafe { &mut *(slice as *mut [u8] as *mut [MaybeUninit<u8>] as *mut UninitSlice) }
    }

    /// Creates a `&mut UninitSlice` wrapping a slice of uninitialised memory.
    ///
    /// # Examples
    ///
    /// ```
    /// use bytes::buf::UninitSlice;
    /// use core::mem::MaybeUninit;
    ///
    /// let mut buffer = [MaybeUninit::uninit(); 64];
    /// let slice = UninitSlice::uninit(&mut buffer[..]);
    ///
    /// let mut vec = Vec::with_capacity(1024);
    /// let spare: &mut UninitSlice = vec.spare_capacity_mut().into();
    /// ```
    #[inline]
    pub fn uninit(slice: &mut [MaybeUninit<u8>]) -> &mut UninitSlice {
        unsafe { &mut *(slice as *mut [MaybeUninit<u8>] as *mut UninitSlice) }
    }

    fn uninit_ref(slice: &[MaybeUninit<u8>]) -> &UninitSlice {
        unsafe { &*(slice as *const [MaybeUninit<u8>] as *const UninitSlice) }
    }

    /// Create a `&mut UninitSlice` from a pointer and a length.
    ///
    /// # Safety
    ///
    /// The caller must ensure that `ptr` references a valid memory region owned
    /// by the caller representing a byte slice for the duration of `'a`.
    ///
    /// # Examples
    ///
    /// ```
    /// use bytes::buf::UninitSlice;
    ///
    /// let bytes = b"hello world".to_vec();
    /// let ptr = bytes.as_ptr() as *mut _;
    /// let len = bytes.len();
    ///
    /// let slice = unsafe { UninitSlice::from_raw_parts_mut(ptr, len) };
    /// ```
    #[inline]
    pub unsafe fn from_raw_parts_mut<'a>(ptr: *mut u8, len: usize) -> &'a mut UninitSlice {
        let maybe_init: &mut [MaybeUninit<u8>] =
            core::slice::from_raw_parts_mut(ptr as *mut _, len);
        Self::uninit(maybe_init)
    }

    /// Write a single byte at the specified offset.
    ///
    /// # Panics
    ///
    /// The function panics if `index` is out of bounds.
    ///
    /// # Examples
    ///
    /// ```
    /// use bytes::buf::UninitSlice;
    ///
    /// let mut data = [b'f', b'o', b'o'];
    /// let slice = unsafe { UninitSlice::from_raw_parts_mut(data.as_mut_ptr(), 3) };
    ///
    /// slice.write_byte(0, b'b');
    ///
    /// assert_eq!(b"boo", &data[..]);
    /// ```
    #[inline]
    pub fn write_byte(&mut self, index: usize, byte: u8) {
        assert!(index < self.len());

        unsafe { self[index..].as_mut_ptr().write(byte) }
    }

    /// Copies bytes from `src` into `self`.
    ///
    /// The length of `src` must be the same as `self`.
    ///
    /// # Panics
    ///
    /// The function panics if `src` has a different length than `self`.
    ///
    /// # Examples
    ///
    /// ```
    /// use bytes::buf::UninitSlice;
    ///
    /// let mut data = [b'f', b'o', b'o'];
    /// let slice = unsafe { UninitSlice::from_raw_parts_mut(data.as_mut_ptr(), 3) };
    ///
    /// slice.copy_from_slice(b"bar");
    ///
    /// assert_eq!(b"bar", &data[..]);
    /// ```
    #[inline]
    pub fn copy_from_slice(&mut self, src: &[u8]) {
        use core::ptr;

        assert_eq!(self.len(), src.len());

        unsafe {
            ptr::copy_nonoverlapping(src.as_ptr(), self.as_mut_ptr(), self.len());
        }
    }

    /// Return a raw pointer to the slice's buffer.
    ///
    /// # Safety
    ///
    /// The caller **must not** read from the referenced memory and **must not**
    /// write **uninitialized** bytes to the slice either.
    ///
    /// # Examples
    ///
    /// ```
    /// use bytes::BufMut;
    ///
    /// let mut data = [0, 1, 2];
    /// let mut slice = &mut data[..];
    /// let ptr = BufMut::chunk_mut(&mut slice).as_mut_ptr();
    /// ```
    #[inline]
    pub fn as_mut_ptr(&mut self) -> *mut u8 {
        self.0.as_mut_ptr() as *mut _
    }

    /// Return a `&mut [MaybeUninit<u8>]` to this slice's buffer.
    ///
    /// # Safety
    ///
    /// The caller **must not** read from the referenced memory and **must not** write
    /// **uninitialized** bytes to the slice either. This is because `BufMut` implementation
    /// that created the `UninitSlice` knows which parts are initialized. Writing uninitialized
    /// bytes to the slice may cause the `BufMut` to read those bytes and trigger undefined
    /// behavior.
    ///
    /// # Examples
    ///
    /// ```
    /// use bytes::BufMut;
    ///
    /// let mut data = [0, 1, 2];
    /// let mut slice = &mut data[..];
    /// unsafe {
    ///     let uninit_slice = BufMut::chunk_mut(&mut slice).as_uninit_slice_mut();
    /// };
    /// ```
    #[inline]
    pub unsafe fn as_uninit_slice_mut(&mut self) -> &mut [MaybeUninit<u8>] {
        &mut self.0
    }

    /// Returns the number of bytes in the slice.
    ///
    /// # Examples
    ///
    /// ```
    /// use bytes::BufMut;
    ///
    /// let mut data = [0, 1, 2];
    /// let mut slice = &mut data[..];
    /// let len = BufMut::chunk_mut(&mut slice).len();
    ///
    /// assert_eq!(len, 3);
    /// ```
    #[inline]
    pub fn len(&self) -> usize {
        self.0.len()
    }
}

impl fmt::Debug for UninitSlice {
    fn fmt(&self, fmt: &mut fmt::Formatter<'_>) -> fmt::Result {
        fmt.debug_struct("UninitSlice[...]").finish()
    }
}

impl<'a> From<&'a mut [u8]> for &'a mut UninitSlice {
    fn from(slice: &'a mut [u8]) -> Self {
        UninitSlice::new(slice)
    }
}

impl<'a> From<&'a mut [MaybeUninit<u8>]> for &'a mut UninitSlice {
    fn from(slice: &'a mut [MaybeUninit<u8>]) -> Self {
        UninitSlice::uninit(slice)
    }
}

macro_rules! impl_index {
    ($($t:ty),*) => {
        $(
            impl Index<$t> for UninitSlice {
                type Output = UninitSlice;

                #[inline]
                fn index(&self, index: $t) -> &UninitSlice {
                    UninitSlice::uninit_ref(&self.0[index])
                }
            }

            impl IndexMut<$t> for UninitSlice {
                #[inline]
                fn index_mut(&mut self, index: $t) -> &mut UninitSlice {
                    UninitSlice::uninit(&mut self.0[index])
                }
            }
        )*
    };
}

impl_index!(
    Range<usize>,
    RangeFrom<usize>,
    RangeFull,
    RangeInclusive<usize>,
    RangeTo<usize>,
    RangeToInclusive<usize>
);
