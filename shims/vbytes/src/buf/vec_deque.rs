use alloc::collections::VecDeque;
#[cfg(feature = "std")]
use std::io;

use super::Buf;

impl Buf for VecDeque<u8> {
    fn remaining(&self) -> usize {
        self.len()
    }

    fn chunk(&self) -> &[u8] {
        let (s1, s2) = self.as_slices();
        if s1.is_empty() {
            s2
        } else {
            s1
        }
    }

    #[cfg(feature = "std")]
    fn chunks_vectored<'a>(&'a self, dst: &mut [io::IoSlice<'a>]) -> usize {
        if self.is_empty() || dst.is_empty() {
            return 0;
        }

        let (s1, s2) = self.as_slices();
        dst[0] = io::IoSlice::new(s1);
        if s2.is_empty() || dst.len() == 1 {
            return 1;
        }

        dst[1] = io::IoSlice::new(s2);
        2
    }

    fn advance(&mut self, cnt: usize) {
        self.drain(..cnt);
    }
}
