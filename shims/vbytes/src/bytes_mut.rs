// Verification model of `bytes::BytesMut` (see /verif/DESIGN.md §3.4): a Vec plus a start offset.
// split/split_to/split_off copy.  No sharing, no vtables, no atomics, no raw pointers.
use core::mem::MaybeUninit;
use core::ops::{Deref, DerefMut};
use core::{cmp, fmt, hash};

use alloc::{
    borrow::{Borrow, BorrowMut},
    string::String,
    vec::Vec,
};

use crate::buf::{IntoIter, UninitSlice};
use crate::{Buf, BufMut, Bytes};

/// Model of a unique reference to a contiguous slice of memory.
pub struct BytesMut {
    vec: Vec<u8>,
    off: usize,
}

impl BytesMut {
    /// Creates a new `BytesMut` with the specified capacity.
    #[inline]
    pub fn with_capacity(capacity: usize) -> BytesMut {
        BytesMut::from_vec(Vec::with_capacity(capacity))
    }

    /// Creates a new `BytesMut` with default capacity.
    #[inline]
    pub fn new() -> BytesMut {
        BytesMut::from_vec(Vec::new())
    }

    #[inline]
    pub(crate) fn from_vec(vec: Vec<u8>) -> BytesMut {
        BytesMut { vec, off: 0 }
    }

    /// Returns the number of bytes contained in this `BytesMut`.
    #[inline]
    pub fn len(&self) -> usize {
        self.vec.len() - self.off
    }

    /// Returns true if the `BytesMut` has a length of 0.
    #[inline]
    pub fn is_empty(&self) -> bool {
        self.len() == 0
    }

    /// Returns the number of bytes the `BytesMut` can hold without reallocating.
    #[inline]
    pub fn capacity(&self) -> usize {
        self.vec.capacity() - self.off
    }

    /// Converts `self` into an immutable `Bytes`.
    #[inline]
    pub fn freeze(self) -> Bytes {
        let end = self.vec.len();
        Bytes::from_vec_window(self.vec, self.off, end)
    }

    /// Creates a new `BytesMut` containing `len` zeros.
    pub fn zeroed(len: usize) -> BytesMut {
        BytesMut::from_vec(alloc::vec![0; len])
    }

    /// Splits the bytes into two at the given index.
    #[must_use = "consider BytesMut::truncate if you don't need the other half"]
    pub fn split_off(&mut self, at: usize) -> BytesMut {
        assert!(
            at <= self.capacity(),
            "split_off out of bounds: {:?} <= {:?}",
            at,
            self.capacity(),
        );
        let len = self.len();
        if at >= len {
            return BytesMut::new();
        }
        let other = BytesMut::from_vec(self.vec[self.off + at..].to_vec());
        self.vec.truncate(self.off + at);
        other
    }

    /// Removes the bytes from the current view, returning them in a new `BytesMut` handle.
    #[must_use = "consider BytesMut::clear if you don't need the other half"]
    pub fn split(&mut self) -> BytesMut {
        let len = self.len();
        self.split_to(len)
    }

    /// Splits the buffer into two at the given index.
    #[must_use = "consider BytesMut::advance if you don't need the other half"]
    pub fn split_to(&mut self, at: usize) -> BytesMut {
        assert!(
            at <= self.len(),
            "split_to out of bounds: {:?} <= {:?}",
            at,
            self.len(),
        );
        let other = BytesMut::from_vec(self.vec[self.off..self.off + at].to_vec());
        self.off += at;
        other
    }

    /// Shortens the buffer, keeping the first `len` bytes and dropping the rest.
    pub fn truncate(&mut self, len: usize) {
        if len <= self.len() {
            self.vec.truncate(self.off + len);
        }
    }

    /// Clears the buffer, removing all data. Existing capacity is preserved.
    pub fn clear(&mut self) {
        self.vec.truncate(self.off);
    }

    /// Resizes the buffer so that `len` is equal to `new_len`.
    pub fn resize(&mut self, new_len: usize, value: u8) {
        self.vec.resize(self.off + new_len, value);
    }

    /// Sets the length of the buffer.
    #[inline]
    pub unsafe fn set_len(&mut self, len: usize) {
        debug_assert!(len <= self.capacity(), "set_len out of bounds");
        self.vec.set_len(self.off + len);
    }

    /// Reserves capacity for at least `additional` more bytes to be inserted.
    #[inline]
    pub fn reserve(&mut self, additional: usize) {
        self.vec.reserve(additional);
    }

    /// Attempts to cheaply reclaim already allocated capacity (model: true iff already available).
    #[inline]
    #[must_use = "consider BytesMut::reserve if you need an infallible reservation"]
    pub fn try_reclaim(&mut self, additional: usize) -> bool {
        self.capacity() - self.len() >= additional
    }

    /// Appends given bytes to this `BytesMut`.
    #[inline]
    pub fn extend_from_slice(&mut self, extend: &[u8]) {
        self.vec.extend_from_slice(extend);
    }

    /// Appends the given range of this buffer to its end.
    pub fn extend_from_within(&mut self, range: impl core::ops::RangeBounds<usize>) {
        let (begin, end) = crate::range(range, self.len());
        let off = self.off;
        self.vec.extend_from_within(off + begin..off + end);
    }

    /// Absorbs a `BytesMut` that was previously split off.
    pub fn unsplit(&mut self, other: BytesMut) {
        if self.is_empty() {
            *self = other;
            return;
        }
        self.extend_from_slice(other.as_ref());
    }

    /// Absorbs a `BytesMut` that was previously split off (model: always succeeds by copying).
    pub fn try_unsplit(&mut self, other: BytesMut) -> Result<(), BytesMut> {
        self.unsplit(other);
        Ok(())
    }

    #[inline]
    fn as_slice(&self) -> &[u8] {
        &self.vec[self.off..]
    }

    #[inline]
    fn as_slice_mut(&mut self) -> &mut [u8] {
        let off = self.off;
        &mut self.vec[off..]
    }

    /// Returns the remaining spare capacity of the buffer as a slice of `MaybeUninit<u8>`.
    #[inline]
    pub fn spare_capacity_mut(&mut self) -> &mut [MaybeUninit<u8>] {
        self.vec.spare_capacity_mut()
    }
}

impl Buf for BytesMut {
    #[inline]
    fn remaining(&self) -> usize {
        self.len()
    }

    #[inline]
    fn chunk(&self) -> &[u8] {
        self.as_slice()
    }

    #[inline]
    fn advance(&mut self, cnt: usize) {
        assert!(
            cnt <= self.remaining(),
            "cannot advance past `remaining`: {:?} <= {:?}",
            cnt,
            self.remaining(),
        );
        self.off += cnt;
    }

    fn copy_to_bytes(&mut self, len: usize) -> Bytes {
        self.split_to(len).freeze()
    }
}

unsafe impl BufMut for BytesMut {
    #[inline]
    fn remaining_mut(&self) -> usize {
        usize::MAX - self.len()
    }

    #[inline]
    unsafe fn advance_mut(&mut self, cnt: usize) {
        let remaining = self.capacity() - self.len();
        if cnt > remaining {
            super::panic_advance(&crate::TryGetError {
                requested: cnt,
                available: remaining,
            });
        }
        let new_len = self.vec.len() + cnt;
        self.vec.set_len(new_len);
    }

    #[inline]
    fn chunk_mut(&mut self) -> &mut UninitSlice {
        if self.capacity() == self.len() {
            self.reserve(64);
        }
        self.spare_capacity_mut().into()
    }

    fn put<T: Buf>(&mut self, mut src: T)
    where
        Self: Sized,
    {
        while src.has_remaining() {
            let s = src.chunk();
            let l = s.len();
            self.extend_from_slice(s);
            src.advance(l);
        }
    }

    fn put_slice(&mut self, src: &[u8]) {
        self.extend_from_slice(src);
    }

    fn put_bytes(&mut self, val: u8, cnt: usize) {
        let new_len = self.vec.len() + cnt;
        self.vec.resize(new_len, val);
    }
}

impl AsRef<[u8]> for BytesMut {
    #[inline]
    fn as_ref(&self) -> &[u8] {
        self.as_slice()
    }
}

impl Deref for BytesMut {
    type Target = [u8];

    #[inline]
    fn deref(&self) -> &[u8] {
        self.as_ref()
    }
}

impl AsMut<[u8]> for BytesMut {
    #[inline]
    fn as_mut(&mut self) -> &mut [u8] {
        self.as_slice_mut()
    }
}

impl DerefMut for BytesMut {
    #[inline]
    fn deref_mut(&mut self) -> &mut [u8] {
        self.as_mut()
    }
}

impl<'a> From<&'a [u8]> for BytesMut {
    fn from(src: &'a [u8]) -> BytesMut {
        BytesMut::from_vec(src.to_vec())
    }
}

impl<'a> From<&'a str> for BytesMut {
    fn from(src: &'a str) -> BytesMut {
        BytesMut::from(src.as_bytes())
    }
}

impl From<BytesMut> for Bytes {
    fn from(src: BytesMut) -> Bytes {
        src.freeze()
    }
}

impl PartialEq for BytesMut {
    fn eq(&self, other: &BytesMut) -> bool {
        self.as_slice() == other.as_slice()
    }
}

impl PartialOrd for BytesMut {
    fn partial_cmp(&self, other: &BytesMut) -> Option<cmp::Ordering> {
        Some(self.cmp(other))
    }
}

impl Ord for BytesMut {
    fn cmp(&self, other: &BytesMut) -> cmp::Ordering {
        self.as_slice().cmp(other.as_slice())
    }
}

impl Eq for BytesMut {}

impl Default for BytesMut {
    #[inline]
    fn default() -> BytesMut {
        BytesMut::new()
    }
}

impl hash::Hash for BytesMut {
    fn hash<H>(&self, state: &mut H)
    where
        H: hash::Hasher,
    {
        let s: &[u8] = self.as_ref();
        s.hash(state);
    }
}

impl Borrow<[u8]> for BytesMut {
    fn borrow(&self) -> &[u8] {
        self.as_ref()
    }
}

impl BorrowMut<[u8]> for BytesMut {
    fn borrow_mut(&mut self) -> &mut [u8] {
        self.as_mut()
    }
}

impl fmt::Write for BytesMut {
    #[inline]
    fn write_str(&mut self, s: &str) -> fmt::Result {
        if self.remaining_mut() >= s.len() {
            self.put_slice(s.as_bytes());
            Ok(())
        } else {
            Err(fmt::Error)
        }
    }

    #[inline]
    fn write_fmt(&mut self, args: fmt::Arguments<'_>) -> fmt::Result {
        fmt::write(self, args)
    }
}

impl Clone for BytesMut {
    fn clone(&self) -> BytesMut {
        BytesMut::from(&self[..])
    }
}

impl IntoIterator for BytesMut {
    type Item = u8;
    type IntoIter = IntoIter<BytesMut>;

    fn into_iter(self) -> Self::IntoIter {
        IntoIter::new(self)
    }
}

impl<'a> IntoIterator for &'a BytesMut {
    type Item = &'a u8;
    type IntoIter = core::slice::Iter<'a, u8>;

    fn into_iter(self) -> Self::IntoIter {
        self.as_ref().iter()
    }
}

impl Extend<u8> for BytesMut {
    fn extend<T>(&mut self, iter: T)
    where
        T: IntoIterator<Item = u8>,
    {
        for b in iter {
            self.vec.push(b);
        }
    }
}

impl<'a> Extend<&'a u8> for BytesMut {
    fn extend<T>(&mut self, iter: T)
    where
        T: IntoIterator<Item = &'a u8>,
    {
        self.extend(iter.into_iter().copied())
    }
}

impl Extend<Bytes> for BytesMut {
    fn extend<T>(&mut self, iter: T)
    where
        T: IntoIterator<Item = Bytes>,
    {
        for bytes in iter {
            self.extend_from_slice(&bytes)
        }
    }
}

impl FromIterator<u8> for BytesMut {
    fn from_iter<T: IntoIterator<Item = u8>>(into_iter: T) -> Self {
        BytesMut::from_vec(Vec::from_iter(into_iter))
    }
}

impl<'a> FromIterator<&'a u8> for BytesMut {
    fn from_iter<T: IntoIterator<Item = &'a u8>>(into_iter: T) -> Self {
        BytesMut::from_iter(into_iter.into_iter().copied())
    }
}

/*
 *
 * ===== PartialEq / PartialOrd =====
 *
 */

impl PartialEq<[u8]> for BytesMut {
    fn eq(&self, other: &[u8]) -> bool {
        &**self == other
    }
}

impl PartialOrd<[u8]> for BytesMut {
    fn partial_cmp(&self, other: &[u8]) -> Option<cmp::Ordering> {
        (**self).partial_cmp(other)
    }
}

impl PartialEq<BytesMut> for [u8] {
    fn eq(&self, other: &BytesMut) -> bool {
        *other == *self
    }
}

impl PartialOrd<BytesMut> for [u8] {
    fn partial_cmp(&self, other: &BytesMut) -> Option<cmp::Ordering> {
        <[u8] as PartialOrd<[u8]>>::partial_cmp(self, other)
    }
}

impl PartialEq<str> for BytesMut {
    fn eq(&self, other: &str) -> bool {
        &**self == other.as_bytes()
    }
}

impl PartialOrd<str> for BytesMut {
    fn partial_cmp(&self, other: &str) -> Option<cmp::Ordering> {
        (**self).partial_cmp(other.as_bytes())
    }
}

impl PartialEq<BytesMut> for str {
    fn eq(&self, other: &BytesMut) -> bool {
        *other == *self
    }
}

impl PartialOrd<BytesMut> for str {
    fn partial_cmp(&self, other: &BytesMut) -> Option<cmp::Ordering> {
        <[u8] as PartialOrd<[u8]>>::partial_cmp(self.as_bytes(), other)
    }
}

impl PartialEq<Vec<u8>> for BytesMut {
    fn eq(&self, other: &Vec<u8>) -> bool {
        *self == other[..]
    }
}

impl PartialOrd<Vec<u8>> for BytesMut {
    fn partial_cmp(&self, other: &Vec<u8>) -> Option<cmp::Ordering> {
        (**self).partial_cmp(&other[..])
    }
}

impl PartialEq<BytesMut> for Vec<u8> {
    fn eq(&self, other: &BytesMut) -> bool {
        *other == *self
    }
}

impl PartialOrd<BytesMut> for Vec<u8> {
    fn partial_cmp(&self, other: &BytesMut) -> Option<cmp::Ordering> {
        other.partial_cmp(self)
    }
}

impl PartialEq<String> for BytesMut {
    fn eq(&self, other: &String) -> bool {
        *self == other[..]
    }
}

impl PartialOrd<String> for BytesMut {
    fn partial_cmp(&self, other: &String) -> Option<cmp::Ordering> {
        (**self).partial_cmp(other.as_bytes())
    }
}

impl PartialEq<BytesMut> for String {
    fn eq(&self, other: &BytesMut) -> bool {
        *other == *self
    }
}

impl PartialOrd<BytesMut> for String {
    fn partial_cmp(&self, other: &BytesMut) -> Option<cmp::Ordering> {
        <[u8] as PartialOrd<[u8]>>::partial_cmp(self.as_bytes(), other)
    }
}

impl<'a, T: ?Sized> PartialEq<&'a T> for BytesMut
where
    BytesMut: PartialEq<T>,
{
    fn eq(&self, other: &&'a T) -> bool {
        *self == **other
    }
}

impl<'a, T: ?Sized> PartialOrd<&'a T> for BytesMut
where
    BytesMut: PartialOrd<T>,
{
    fn partial_cmp(&self, other: &&'a T) -> Option<cmp::Ordering> {
        self.partial_cmp(*other)
    }
}

impl PartialEq<BytesMut> for &[u8] {
    fn eq(&self, other: &BytesMut) -> bool {
        *other == *self
    }
}

impl PartialOrd<BytesMut> for &[u8] {
    fn partial_cmp(&self, other: &BytesMut) -> Option<cmp::Ordering> {
        <[u8] as PartialOrd<[u8]>>::partial_cmp(self, other)
    }
}

impl PartialEq<BytesMut> for &str {
    fn eq(&self, other: &BytesMut) -> bool {
        *other == *self
    }
}

impl PartialOrd<BytesMut> for &str {
    fn partial_cmp(&self, other: &BytesMut) -> Option<cmp::Ordering> {
        other.partial_cmp(self)
    }
}

impl PartialEq<BytesMut> for Bytes {
    fn eq(&self, other: &BytesMut) -> bool {
        other[..] == self[..]
    }
}

impl PartialEq<Bytes> for BytesMut {
    fn eq(&self, other: &Bytes) -> bool {
        other[..] == self[..]
    }
}

impl From<BytesMut> for Vec<u8> {
    fn from(bytes: BytesMut) -> Self {
        if bytes.off == 0 {
            bytes.vec
        } else {
            bytes.vec[bytes.off..].to_vec()
        }
    }
}
