use core::fmt::{Debug, Formatter, Result};

use super::BytesRef;
use crate::{Bytes, BytesMut};

/// Alternative implementation of `std::fmt::Debug` for byte slice.
///
/// Standard `Debug` implementation for `[u8]` is comma separated
/// list of numbers. Since large amount of byte strings are in fact
/// ASCII strings or contain a lot of ASCII strings (e. g. HTTP),
/// it is convenient to print strings as ASCII when possible.
impl Debug for BytesRef<'_> {
    fn fmt(&self, f: &mut Formatter<'_>) -> Result {
        write!(f, "b\"")?;
        for &b in self.0 {
            // https://doc.rust-lang.org/reference/tokens.html#byte-escapes
            if b == b'\n' {
                write!(f, "\\n")?;
            } else if b == b'\r' {
                write!(f, "\\r")?;
            } else if b == b'\t' {
                write!(f, "\\t")?;
            } else if b == b'\\' || b == b'"' {
                write!(f, "\\{}", b as char)?;
            } else if b == b'\0' {
                write!(f, "\\0")?;
            // ASCII printable
            } else if (0x20..0x7f).contains(&b) {
                write!(f, "{}", b as char)?;
            } else {
                write!(f, "\\x{:02x}", b)?;
            }
        }
        write!(f, "\"")?;
        Ok(())
    }
}

fmt_impl!(Debug, Bytes);
fmt_impl!(Debug, BytesMut);
