use core::fmt::{Formatter, LowerHex, Result, UpperHex};

use super::BytesRef;
use crate::{Bytes, BytesMut};

impl LowerHex for BytesRef<'_> {
    fn fmt(&self, f: &mut Formatter<'_>) -> Result {
        for &b in self.0 {
            write!(f, "{:02x}", b)?;
        }
        Ok(())
    }
}

impl UpperHex for BytesRef<'_> {
    fn fmt(&self, f: &mut Formatter<'_>) -> Result {
        for &b in self.0 {
            write!(f, "{:02X}", b)?;
        }
        Ok(())
    }
}

fmt_impl!(LowerHex, Bytes);
fmt_impl!(LowerHex, BytesMut);
fmt_impl!(UpperHex, Bytes);
fmt_impl!(UpperHex, BytesMut);
