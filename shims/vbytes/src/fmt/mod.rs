macro_rules! fmt_impl {
    ($tr:ident, $ty:ty) => {
        impl $tr for $ty {
            fn fmt(&self, f: &mut Formatter<'_>) -> Result {
                $tr::fmt(&BytesRef(self.as_ref()), f)
            }
        }
    };
}

mod debug;
mod hex;

/// `BytesRef` is not a part of public API of bytes crate.
struct BytesRef<'a>(&'a [u8]);
