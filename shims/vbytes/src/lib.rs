#![warn(missing_docs, missing_debug_implementations, rust_2018_idioms)]
#![doc(test(
    no_crate_inject,
    attr(deny(warnings, rust_2018_idioms), allow(dead_code, unused_variables))
))]
#![no_std]
#![cfg_attr(docsrs, feature(doc_cfg))]

//! Provides abstractions for working with bytes.
//!
//! The `bytes` crate provides an efficient byte buffer structure
//! ([`Bytes`]) and traits for working with buffer
//! implementations ([`Buf`], [`BufMut`]).
//!
//! # `Bytes`
//!
//! `Bytes` is an efficient container for storing and operating on contiguous
//! slices of memory. It is intended for use primarily in networking code, but
//! could have applications elsewhere as well.
//!
//! `Bytes` values facilitate zero-copy network programming by allowing multiple
//! `Bytes` objects to point to the same underlying memory. This is managed by
//! using a reference count to track when the memory is no longer needed and can
//! be freed.
//!
//! A `Bytes` handle can be created directly from an existing byte store (such as `&[u8]`
//! or `Vec<u8>`), but usually a `BytesMut` is used first and written to. For
//! example:
//!
//! ```rust
//! use bytes::{BytesMut, BufMut};
//!
//! let mut buf = BytesMut::with_capacity(1024);
//! buf.put(&b"hello world"[..]);
//! buf.put_u16(1234);
//!
//! let a = buf.split();
//! assert_eq!(a, b"hello world\x04\xD2"[..]);
//!
//! buf.put(&b"goodbye world"[..]);
//!
//! let b = buf.split();
//! assert_eq!(b, b"goodbye world"[..]);
//!
//! assert_eq!(buf.capacity(), 998);
//! ```
//!
//! In the above example, only a single buffer of 1024 is allocated. The handles
//! `a` and `b` will share the underlying buffer and maintain indices tracking
//! the view into the buffer represented by the handle.
//!
//! See the [struct docs](`Bytes`) for more details.
//!
//! # `Buf`, `BufMut`
//!
//! These two traits provide read and write access to buffers. The underlying
//! storage may or may not be in contiguous memory. For example, `Bytes` is a
//! buffer that guarantees contiguous memory, but a [rope] stores the bytes in
//! disjoint chunks. `Buf` and `BufMut` maintain cursors tracking the current
//! position in the underlying byte storage. When bytes are read or written, the
//! cursor is advanced.
//!
//! [rope]: https://en.wikipedia.org/wiki/Rope_(data_structure)
//!
//! ## Relation with `Read` and `Write`
//!
//! At first glance, it may seem that `Buf` and `BufMut` overlap in
//! functionality with [`std::io::Read`] and [`std::io::Write`]. However, they
//! serve different purposes. A buffer is the value that is provided as an
//! argument to `Read::read` and `Write::write`. `Read` and `Write` may then
//! perform a syscall, which has the potential of failing. Operations on `Buf`
//! and `BufMut` are infallible.

extern crate alloc;

#[cfg(feature = "std")]
extern crate std;

pub mod buf;
pub use crate::buf::{Buf, BufMut};

mod bytes;
mod bytes_mut;
mod fmt;
pub use crate::bytes::Bytes;
pub use crate::bytes_mut::BytesMut;

// Optional Serde support
#[cfg(feature = "serde")]
mod serde;

#[inline(never)]
#[cold]
fn abort() -> ! {
    #[cfg(feature = "std")]
    {
        std::process::abort();
    }

    #[cfg(not(feature = "std"))]
    {
        struct Abort;
        impl Drop for Abort {
            fn drop(&mut self) {
                panic!();
            }
        }
        let _a = Abort;
        panic!("abort");
    }
}

#[inline(always)]
#[cfg(feature = "std")]
fn saturating_sub_usize_u64(a: usize, b: u64) -> usize {
    match usize::try_from(b) {
        Ok(b) => a.saturating_sub(b),
        Err(_) => 0,
    }
}

#[inline(always)]
#[cfg(feature = "std")]
fn min_u64_usize(a: u64, b: usize) -> usize {
    match usize::try_from(a) {
        Ok(a) => usize::min(a, b),
        Err(_) => b,
    }
}

/// Performs bounds checking of a range.
///
/// This is a spiritual copy of [core::slice::index::range] because that
/// function is currently unstable.
#[inline(always)]
#[track_caller]
fn range(range: impl core::ops::RangeBounds<usize>, len: usize) -> (usize, usize) {
    use core::ops::Bound;

    let begin = match range.start_bound() {
        Bound::Included(&n) => n,
        Bound::Excluded(&n) => n.checked_add(1).expect("out of range"),
        Bound::Unbounded => 0,
    };

    let end = match range.end_bound() {
        Bound::Included(&n) => n.checked_add(1).expect("out of range"),
        Bound::Excluded(&n) => n,
        Bound::Unbounded => len,
    };

    assert!(
        begin <= end,
        "range start must not be greater than end: {:?} <= {:?}",
        begin,
        end,
    );
    assert!(
        end <= len,
        "range end out of bounds: {:?} <= {:?}",
        end,
        len,
    );

    (begin, end)
}

/// Error type for the `try_get_` methods of [`Buf`].
/// Indicates that there were not enough remaining
/// bytes in the buffer while attempting
/// to get a value from a [`Buf`] with one
/// of the `try_get_` methods.
#[derive(Debug, PartialEq, Eq)]
pub struct TryGetError {
    /// The number of bytes necessary to get the value
    pub requested: usize,

    /// The number of bytes available in the buffer
    pub available: usize,
}

impl core::fmt::Display for TryGetError {
    fn fmt(&self, f: &mut core::fmt::Formatter<'_>) -> Result<(), core::fmt::Error> {
        write!(
            f,
            "Not enough bytes remaining in buffer to read value (requested {} but only {} available)",
            self.requested,
            self.available
        )
    }
}

#[cfg(feature = "std")]
impl std::error::Error for TryGetError {}

#[cfg(feature = "std")]
impl From<TryGetError> for std::io::Error {
    fn from(error: TryGetError) -> Self {
        std::io::Error::new(std::io::ErrorKind::Other, error)
    }
}

/// Panic with a nice error message.
#[cold]
fn panic_advance(error_info: &TryGetError) -> ! {
    panic!(
        "advance out of bounds: the len is {} but advancing by {}",
        error_info.available, error_info.requested
    );
}

#[cold]
fn panic_does_not_fit(size: usize, nbytes: usize) -> ! {
    panic!(
        "size too large: the integer type can fit {} bytes, but nbytes is {}",
        size, nbytes
    );
}
