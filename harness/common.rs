// Shared helpers for all Kani harness modules (included with `include!`; no tonic code in here).
// Everything in this file is *reference* or *environment* code: it shares nothing with tonic's implementation.

#[allow(dead_code)]
pub(super) fn fmt_stub(_args: core::fmt::Arguments<'_>) -> String {
    // DESIGN §3.4: alloc::fmt::format is stubbed in every harness; message texts are never asserted on.
    String::new()
}

#[allow(dead_code)]
pub(super) fn random_state_stub() -> std::hash::RandomState {
    // Never called on a path we assert on; present so that the real (thread_local based) body is not compiled in (P2).
    kani::assume(false);
    loop {}
}

#[allow(dead_code)]
pub(super) fn noop_cx() -> core::task::Context<'static> {
    core::task::Context::from_waker(core::task::Waker::noop())
}

/// Independent reference: parse one gRPC length-prefixed frame at the front of `b`.
/// Returns (flag, declared_len, have_complete_frame).
#[allow(dead_code)]
pub(super) fn ref_frame_header(b: &[u8]) -> Option<(u8, usize)> {
    if b.len() < 5 {
        return None;
    }
    let len = ((b[1] as usize) << 24) | ((b[2] as usize) << 16) | ((b[3] as usize) << 8) | (b[4] as usize);
    Some((b[0], len))
}

/// Independent reference framing of one message: [flag, BE32(len), payload].
#[allow(dead_code)]
pub(super) fn ref_frame_prefix(flag: u8, len: usize) -> [u8; 5] {
    [flag, (len >> 24) as u8, (len >> 16) as u8, (len >> 8) as u8, len as u8]
}
