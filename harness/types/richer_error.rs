// Kani harnesses injected as a child module of tonic-types/src/richer_error/mod.rs.
// Obligation: C20 Y3: gen_details_bytes (shared by every with_error_details* constructor) writes a google.rpc.Status that carries the
// code and EVERY detail handed to it, in order - judged against protobuf wire bytes written out by hand in the harness, not by prost.
#![allow(dead_code, unused_imports, clippy::all)]
use super::*;

mod common {
    include!("../common.rs");
}
use common::*;

fn code_of(c: u8) -> Code {
    Code::from_i32(c as i32)
}

// one detail whose payload is 0 or 1 symbolic byte; a detail with an empty payload (e.g. a RetryInfo without delay, an empty
// BadRequest) is still a detail the caller attached
#[kani::proof]
#[kani::unwind(12)]
#[kani::stub(alloc::fmt::format, fmt_stub)]
fn ty_details_bytes_one() {
    let c: u8 = kani::any();
    kani::assume(c >= 1 && c <= 16);
    let n: usize = kani::any();
    kani::assume(n <= 1);
    let b: u8 = kani::any();
    let mut v: Vec<u8> = Vec::new();
    if n == 1 {
        v.push(b);
    }
    let any = Any { type_url: String::new(), value: v };
    let bytes = gen_details_bytes(code_of(c), "", vec![any]);
    // google.rpc.Status{code=c, message="", details=[Any{type_url="", value=v}]} on the wire:
    //   08 c | 1a L <Any>      with <Any> = (12 01 b) when v = [b], empty when v = []
    let out: &[u8] = &bytes;
    if n == 1 {
        kani::cover!(true, "detail with payload");
        assert!(out.len() == 7, "C20: google.rpc.Status bytes do not carry exactly the code and the detail");
        assert!(out[0] == 0x08 && out[1] == c, "C20: status code not encoded as field 1");
        assert!(out[2] == 0x1a && out[3] == 3 && out[4] == 0x12 && out[5] == 1 && out[6] == b, "C20: detail payload altered");
    } else {
        kani::cover!(true, "detail with empty payload");
        assert!(out.len() == 4, "C20: a detail with an empty payload was dropped from (or something was added to) the details");
        assert!(out[0] == 0x08 && out[1] == c && out[2] == 0x1a && out[3] == 0, "C20: empty detail not encoded as an empty field 3");
    }
    core::mem::forget(bytes);
}
