// Kani harnesses injected as a child module of tonic-types/src/richer_error/std_messages/retry_info.rs.
// Obligation: C20 Y1 (retry delay survives the protobuf Duration conversion, clamped to the protobuf range), Y2 for RetryInfo.
#![allow(dead_code, unused_imports, clippy::all)]
use super::*;

mod common {
    include!("../common.rs");
}
use common::*;

fn any_duration() -> time::Duration {
    let s: u64 = kani::any();
    let n: u32 = kani::any();
    kani::assume(n < 1_000_000_000);
    time::Duration::new(s, n)
}

// protobuf Duration range, from the google.protobuf.Duration documentation (not from tonic's constant)
const MAX_S: u64 = 315_576_000_000;
const MAX_N: u32 = 999_999_999;

#[kani::proof]
#[kani::unwind(4)]
#[kani::stub(alloc::fmt::format, fmt_stub)]
fn ty_retry_delay_conversion() {
    let d = any_duration();
    let ri = RetryInfo::new(Some(d));
    let over = d.as_secs() > MAX_S; // nanos are always <= MAX_N
    let expect_s = if over { MAX_S } else { d.as_secs() };
    let expect_n = if over { MAX_N } else { d.subsec_nanos() };
    match ri.retry_delay {
        Some(x) => assert!(x.as_secs() == expect_s && x.subsec_nanos() == expect_n, "C20: RetryInfo::new clamps wrongly"),
        None => assert!(false),
    }
    let pbv: pb::RetryInfo = ri.into();
    match &pbv.retry_delay {
        Some(p) => {
            assert!(p.seconds == expect_s as i64 && p.nanos == expect_n as i32, "C20: retry delay changed when written as a protobuf Duration");
        }
        None => assert!(false, "C20: retry delay dropped"),
    }
    let back: RetryInfo = pbv.into();
    match back.retry_delay {
        Some(x) => {
            assert!(x.as_secs() == expect_s && x.subsec_nanos() == expect_n, "C20: retry delay does not round-trip");
        }
        None => assert!(false, "C20: retry delay lost on the way back"),
    }
    kani::cover!(over, "clamped");
    kani::cover!(d.as_secs() == MAX_S && d.subsec_nanos() == 0, "last second of the range");
    kani::cover!(!over && d.as_secs() > 0, "ordinary delay");
}

#[kani::proof]
#[kani::unwind(4)]
#[kani::stub(alloc::fmt::format, fmt_stub)]
fn ty_retry_delay_none() {
    let ri = RetryInfo::new(None);
    assert!(ri.is_empty());
    let pbv: pb::RetryInfo = ri.into();
    assert!(pbv.retry_delay.is_none());
    let back: RetryInfo = pbv.into();
    assert!(back.retry_delay.is_none(), "C20: an absent retry delay became present");
    kani::cover!(true, "none");
}

// full leg through prost: detail -> Any bytes -> detail
#[kani::proof]
#[kani::unwind(12)]
#[kani::stub(alloc::fmt::format, fmt_stub)]
fn ty_retry_info_any_roundtrip() {
    let s: u64 = kani::any();
    kani::assume(s <= MAX_S);
    let n: u32 = kani::any();
    kani::assume(n < 1_000_000_000);
    let ri = RetryInfo::new(Some(time::Duration::new(s, n)));
    let any = ri.into_any();
    let back = RetryInfo::from_any_ref(&any);
    match &back {
        Ok(r) => match r.retry_delay {
            Some(x) => assert!(x.as_secs() == s && x.subsec_nanos() == n, "C20: RetryInfo does not survive Any encoding"),
            None => assert!(false, "C20: RetryInfo delay lost in Any encoding"),
        },
        Err(_) => assert!(false, "C20: tonic cannot decode its own RetryInfo"),
    }
    kani::cover!(s > 0 && n > 0, "both fields present");
    core::mem::forget(back);
    core::mem::forget(any);
}
