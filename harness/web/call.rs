// Kani harnesses injected as a child module of tonic-web/src/call.rs.
// Obligations: C17 U1 (find_trailers), U2 (decode_trailers_frame), U3 (client poll_frame loop);
//              C16 R1 (base64 request chunks), R2 (response data / trailers frame).
#![allow(dead_code, unused_imports, clippy::all, static_mut_refs)]
use super::*;
use tonic::Code;

mod common {
    include!("../common.rs");
}
use common::*;

// ------------------------------------------------------------------------------------------------
// U1: find_trailers == independent reference, for every buffer up to N bytes
// ------------------------------------------------------------------------------------------------
#[derive(PartialEq, Eq, Clone, Copy)]
enum RefFind {
    Trailer(usize),
    Incomplete,
    Done(usize),
    Invalid,
}

fn ref_find(b: &[u8]) -> RefFind {
    let mut pos = 0usize;
    loop {
        if b.len() - pos < 5 {
            return RefFind::Done(pos);
        }
        let flag = b[pos];
        if flag == 0x80 {
            return RefFind::Trailer(pos);
        }
        if flag > 1 {
            return RefFind::Invalid;
        }
        let (_, len) = ref_frame_header(&b[pos..]).unwrap();
        let next = pos + 5 + len;
        if next > b.len() {
            return RefFind::Incomplete;
        }
        pos = next;
    }
}

fn find_trailers_case<const N: usize>() {
    let raw: [u8; N] = kani::any();
    let len: usize = kani::any();
    kani::assume(len <= N);
    let got = find_trailers(&raw[..len]);
    let want = ref_find(&raw[..len]);
    match (&got, want) {
        (Ok(FindTrailers::Trailer(a)), RefFind::Trailer(b)) => {
            kani::cover!(*a > 0, "trailers after a message");
            assert!(*a == b, "C17: trailers frame located at the wrong offset");
        }
        (Ok(FindTrailers::Done(a)), RefFind::Done(b)) => {
            kani::cover!(*a > 0, "whole messages, no trailers yet");
            assert!(*a == b, "C17: message frames measured wrongly");
        }
        (Ok(FindTrailers::IncompleteBuf), RefFind::Incomplete) => {
            kani::cover!(true, "incomplete frame");
        }
        (Err(s), RefFind::Invalid) => {
            kani::cover!(true, "invalid flag");
            assert!(s.code() == Code::Internal);
        }
        _ => assert!(false, "C17: find_trailers disagrees with the reference frame walker"),
    }
    core::mem::forget(got);
}

#[kani::proof]
#[kani::unwind(5)]
#[kani::stub(alloc::fmt::format, fmt_stub)]
fn web_find_trailers_12() {
    find_trailers_case::<12>()
}
#[kani::proof]
#[kani::unwind(4)]
#[kani::stub(alloc::fmt::format, fmt_stub)]
fn web_find_trailers_7() {
    find_trailers_case::<7>()
}

// the trailers frame is complete iff 5 + BE32 length bytes are buffered (used by the client loop to wait for all of it)
#[kani::proof]
#[kani::unwind(4)]
#[kani::stub(alloc::fmt::format, fmt_stub)]
fn web_trailers_frame_len_10() {
    let raw: [u8; 10] = kani::any();
    let len: usize = kani::any();
    kani::assume(len <= 10);
    let got = trailers_frame_len(&raw[..len]);
    let want = match ref_frame_header(&raw[..len]) {
        Some((_flag, l)) => {
            if 5 + l <= len {
                Some(5 + l)
            } else {
                None
            }
        }
        None => None,
    };
    assert!(got == want, "C17: completeness of the trailers frame judged wrongly (trailers would be parsed before all of them arrived, or never)");
    kani::cover!(got.is_some(), "complete frame");
    kani::cover!(len >= 5 && got.is_none(), "incomplete frame");
}

#[kani::proof]
#[kani::unwind(7)]
#[kani::stub(alloc::fmt::format, fmt_stub)]
fn web_find_trailers_24() {
    find_trailers_case::<24>()
}
#[kani::proof]
#[kani::unwind(10)]
#[kani::stub(alloc::fmt::format, fmt_stub)]
fn web_find_trailers_40() {
    find_trailers_case::<40>()
}
#[kani::proof]
#[kani::unwind(6)]
#[kani::stub(alloc::fmt::format, fmt_stub)]
fn web_find_trailers_17() {
    find_trailers_case::<17>()
}

// ------------------------------------------------------------------------------------------------
// R2: the trailers frame lists every trailer (repeated names included): 0x80, BE32(len), "name:value\r\n"...
// ------------------------------------------------------------------------------------------------
const N_A: HeaderName = HeaderName::from_static("a");
const N_B: HeaderName = HeaderName::from_static("b");

fn vis(b: u8) -> bool {
    b >= 0x20 && b < 0x7f
}

#[kani::proof]
#[kani::unwind(24)]
#[kani::stub(alloc::fmt::format, fmt_stub)]
fn web_trailers_frame_repeated() {
    let v1: [u8; 1] = kani::any();
    let v2: [u8; 1] = kani::any();
    let v3: [u8; 1] = kani::any();
    kani::assume(vis(v1[0]) && vis(v2[0]) && vis(v3[0]));
    let mut map = HeaderMap::new();
    map.append(N_A, HeaderValue::from_bytes(&v1).unwrap());
    map.append(N_B, HeaderValue::from_bytes(&v2).unwrap());
    map.append(N_A, HeaderValue::from_bytes(&v3).unwrap()); // a repeated name
    let frame = make_trailers_frame(map);
    // every trailer is listed: three lines "x:v\r\n" of 5 bytes each
    assert!(frame.len() == 5 + 15, "C16: the trailers frame does not list every trailer");
    assert!(frame[0] == 0x80, "C16: trailers frame flag must be 0x80");
    assert!(frame[1] == 0 && frame[2] == 0 && frame[3] == 0 && frame[4] == 15, "C16: trailers frame length prefix is wrong");
    // group order: a:v1, a:v3, b:v2 (values of one name are contiguous) -- accept any order of lines, require the multiset
    let mut seen_a1 = false;
    let mut seen_a3 = false;
    let mut seen_b2 = false;
    let mut i = 0;
    while i < 3 {
        let l = 5 + i * 5;
        assert!(frame[l + 1] == b':' && frame[l + 3] == b'\r' && frame[l + 4] == b'\n', "C16: malformed trailer line");
        let (n, v) = (frame[l], frame[l + 2]);
        if n == b'a' && v == v1[0] && !seen_a1 {
            seen_a1 = true;
        } else if n == b'a' && v == v3[0] && !seen_a3 {
            seen_a3 = true;
        } else if n == b'b' && v == v2[0] && !seen_b2 {
            seen_b2 = true;
        } else {
            assert!(false, "C16: a trailer line does not correspond to any trailer of the response");
        }
        i += 1;
    }
    assert!(seen_a1 && seen_a3 && seen_b2, "C16: a trailer value is missing from the trailers frame");
    kani::cover!(true, "frame checked");
    core::mem::forget(frame);
}

// ------------------------------------------------------------------------------------------------
// U2: decode_trailers_frame recovers every name with its full value (':' and ' ' inside values, repeated names)
// ------------------------------------------------------------------------------------------------
#[kani::proof]
#[kani::unwind(20)]
#[kani::stub(alloc::fmt::format, fmt_stub)]
fn web_decode_trailers_colon_repeat() {
    // frame: "a:" v0 v1 v2 "\r\n" "a:" w0 "\r\n"   (two lines with the same name; values may contain ':' and ' ')
    let v: [u8; 3] = kani::any();
    let w: [u8; 1] = kani::any();
    kani::assume(vis(v[0]) && vis(v[1]) && vis(v[2]) && vis(w[0]));
    kani::assume(v[0] != b' ' && w[0] != b' '); // one optional leading space after the colon is not part of the value
    let body = [b'a', b':', v[0], v[1], v[2], b'\r', b'\n', b'a', b':', w[0], b'\r', b'\n'];
    let mut frame = [0u8; 17];
    frame[0] = 0x80;
    frame[4] = 12;
    let mut i = 0;
    while i < 12 {
        frame[5 + i] = body[i];
        i += 1;
    }
    let got = decode_trailers_frame(Bytes::copy_from_slice(&frame[..]));
    match &got {
        Ok(Some(map)) => {
            let mut it = map.get_all("a").iter();
            let first = it.next();
            let second = it.next();
            match (first, second) {
                (Some(x), Some(y)) => {
                    let xb = x.as_bytes();
                    assert!(xb.len() == 3 && xb[0] == v[0] && xb[1] == v[1] && xb[2] == v[2],
                            "C17: trailer value truncated or altered (values may contain ':')");
                    let yb = y.as_bytes();
                    assert!(yb.len() == 1 && yb[0] == w[0], "C17: second value of a repeated trailer name is wrong");
                    kani::cover!(v[1] == b':', "value containing a colon");
                }
                _ => assert!(false, "C17: a repeated trailer name lost one of its values"),
            }
            assert!(it.next().is_none());
        }
        _ => assert!(false, "C17: a well-formed trailers frame was not decoded"),
    }
    core::mem::forget(got);
}

// ------------------------------------------------------------------------------------------------
// U3: the client-side body loop.  One poll_frame from an arbitrary buffered prefix, against a scripted inner body.
// ------------------------------------------------------------------------------------------------
#[derive(Clone, Copy)]
enum BEv {
    Pending,
    End,
    Data2([u8; 2]),
    Fail,
}
struct ScriptBody<const K: usize> {
    ev: [BEv; K],
    pos: usize,
    ended: bool,
    polls_after_end: u32,
}
impl<const K: usize> Body for ScriptBody<K> {
    type Data = Bytes;
    type Error = Status;
    fn poll_frame(mut self: Pin<&mut Self>, _cx: &mut Context<'_>) -> Poll<Option<Result<Frame<Bytes>, Status>>> {
        if self.ended {
            self.polls_after_end += 1;
        }
        if self.pos >= K {
            return Poll::Pending;
        }
        let e = self.ev[self.pos];
        self.pos += 1;
        match e {
            BEv::Pending => Poll::Pending,
            BEv::End => {
                self.ended = true;
                Poll::Ready(None)
            }
            BEv::Data2(d) => Poll::Ready(Some(Ok(Frame::data(Bytes::copy_from_slice(&d[..]))))),
            BEv::Fail => {
                self.ended = true;
                Poll::Ready(Some(Err(Status::new(Code::Aborted, ""))))
            }
        }
    }
}

fn any_bev() -> BEv {
    let k: u8 = kani::any();
    match k % 4 {
        0 => BEv::Pending,
        1 => BEv::End,
        2 => BEv::Data2(kani::any()),
        _ => BEv::Fail,
    }
}

/// stands in for decode_trailers_frame inside the client-loop harness (the real one is decided by web_decode_trailers_*):
/// checks that the loop hands it exactly one COMPLETE trailers frame, then returns an empty trailer map
static mut DTF_CALLS: u32 = 0;
fn decode_trailers_stub(buf: Bytes) -> Result<Option<HeaderMap>, Status> {
    unsafe {
        DTF_CALLS += 1;
    }
    let b: &[u8] = buf.as_ref();
    assert!(b.len() >= 5 && b[0] == 0x80, "C17: something that is not a trailers frame was parsed as trailers");
    let (_, l) = ref_frame_header(b).unwrap();
    assert!(b.len() == 5 + l, "C17: the trailers frame was parsed before all of it had arrived (or with bytes that follow it)");
    Ok(Some(HeaderMap::new()))
}

fn client_step<const N: usize, const K: usize>() {
    unsafe {
        DTF_CALLS = 0;
    }
    let pre: [u8; N] = kani::any();
    let mut ev = [BEv::Pending; K];
    let mut i = 0;
    while i < K {
        ev[i] = any_bev();
        i += 1;
    }
    let mut call = GrpcWebCall::client_response(ScriptBody::<K> { ev, pos: 0, ended: false, polls_after_end: 0 });
    call.decoded.put_slice(&pre[..]);
    let mut cx = noop_cx();
    let r = unsafe { Pin::new_unchecked(&mut call) }.poll_frame(&mut cx);

    // everything received so far = pre ++ data chunks consumed from the script
    let mut all = [0u8; 12];
    let mut n = 0;
    i = 0;
    while i < N {
        all[n] = pre[i];
        n += 1;
        i += 1;
    }
    let consumed = call.inner.pos;
    let mut body_over = false;
    let mut body_failed = false;
    i = 0;
    while i < K {
        if i < consumed {
            match ev[i] {
                BEv::Data2(d) => {
                    all[n] = d[0];
                    all[n + 1] = d[1];
                    n += 2;
                }
                BEv::End => body_over = true,
                BEv::Fail => body_failed = true,
                BEv::Pending => {}
            }
        }
        i += 1;
    }

    match &r {
        Poll::Ready(Some(Ok(f))) if f.is_data() => {
            kani::cover!(true, "message bytes yielded");
            let d = f.data_ref().unwrap();
            assert!(d.len() > 0, "C17: empty data frame");
            // the yielded bytes are whole message frames of the received stream (independent frame walker)
            match ref_find(&all[..n]) {
                RefFind::Trailer(k) | RefFind::Done(k) => {
                    assert!(d.len() <= k, "C17: yielded bytes run past the last complete message frame");
                }
                _ => {}
            }
            // (byte equality of the yielded chunk is not asserted here: comparing a yielded `Bytes` byte by byte exhausts the
            //  solver's memory, DESIGN P34; the chunk is `decoded.split_to(len)`, lengths and frame boundaries are checked)
            let k = d.len();
            assert!(k <= n);
            assert!(ref_find(&all[..k]) == RefFind::Done(k), "C17: a data frame ended inside a message frame");
        }
        Poll::Ready(Some(Ok(_))) => {
            kani::cover!(true, "trailers yielded");
            assert!(call.direction == Direction::Empty, "C17: the body must be over after its trailers");
        }
        Poll::Ready(Some(Err(_))) => {
            kani::cover!(true, "error");
            assert!(call.direction == Direction::Empty, "C17: an error must end the body");
        }
        Poll::Ready(None) => {
            kani::cover!(true, "clean end");
            assert!(body_over, "C17: clean end although the inner body has not ended");
            assert!(n == 0, "C17: body cut off inside a frame but reported as a clean end");
        }
        Poll::Pending => {
            kani::cover!(true, "pending");
            assert!(!body_over && !body_failed, "C17: Pending although the inner body is over (hang)");
        }
    }
    if body_over && n > 0 {
        // the inner body ended with undelivered bytes: only data (complete frames), trailers or an error are acceptable
        assert!(!matches!(r, Poll::Ready(None)), "C17: truncated body ended cleanly");
    }
    assert!(call.inner.polls_after_end == 0, "C17: inner body polled again after it ended");
    core::mem::forget(r);

    // terminal states stay terminal and do not touch the inner body again
    if call.direction == Direction::Empty {
        let polls_before = call.inner.pos;
        let r2 = unsafe { Pin::new_unchecked(&mut call) }.poll_frame(&mut cx);
        assert!(matches!(r2, Poll::Ready(None)), "C17: something follows the end of the body");
        assert!(call.inner.pos == polls_before && call.inner.polls_after_end == 0, "C17: inner body polled after the end");
        core::mem::forget(r2);
    }
    core::mem::forget(call);
}

#[kani::proof]
#[kani::unwind(13)]
#[kani::stub(alloc::fmt::format, fmt_stub)]
#[kani::stub(decode_trailers_frame, decode_trailers_stub)]
fn web_client_step_n0_k1() {
    client_step::<0, 1>()
}
#[kani::proof]
#[kani::unwind(13)]
#[kani::stub(alloc::fmt::format, fmt_stub)]
#[kani::stub(decode_trailers_frame, decode_trailers_stub)]
fn web_client_step_n3_k1() {
    client_step::<3, 1>()
}
#[kani::proof]
#[kani::unwind(13)]
#[kani::stub(alloc::fmt::format, fmt_stub)]
#[kani::stub(decode_trailers_frame, decode_trailers_stub)]
fn web_client_step_n6_k1() {
    client_step::<6, 1>()
}
#[kani::proof]
#[kani::unwind(13)]
#[kani::stub(alloc::fmt::format, fmt_stub)]
#[kani::stub(decode_trailers_frame, decode_trailers_stub)]
fn web_client_step_n4_k2() {
    client_step::<4, 2>()
}
#[kani::proof]
#[kani::unwind(13)]
#[kani::stub(alloc::fmt::format, fmt_stub)]
#[kani::stub(decode_trailers_frame, decode_trailers_stub)]
fn web_client_step_n7_k2() {
    client_step::<7, 2>()
}

// ------------------------------------------------------------------------------------------------
// R1: base64 request text arrives in arbitrary pieces: decode_chunk consumes the largest multiple-of-4 prefix
// ------------------------------------------------------------------------------------------------
fn b64_val(c: u8) -> Option<u8> {
    if c >= b'A' && c <= b'Z' {
        Some(c - b'A')
    } else if c >= b'a' && c <= b'z' {
        Some(c - b'a' + 26)
    } else if c >= b'0' && c <= b'9' {
        Some(c - b'0' + 52)
    } else if c == b'+' {
        Some(62)
    } else if c == b'/' {
        Some(63)
    } else {
        None
    }
}

fn server_b64_chunk<const N: usize>() {
    let raw: [u8; N] = kani::any();
    let mut i = 0;
    while i < N {
        kani::assume(b64_val(raw[i]).is_some());
        i += 1;
    }
    let mut call = GrpcWebCall::request(ScriptBody::<1> { ev: [BEv::Pending], pos: 0, ended: false, polls_after_end: 0 }, Encoding::Base64);
    call.buf.put_slice(&raw[..]);
    let r = unsafe { Pin::new_unchecked(&mut call) }.decode_chunk();
    let quads = N / 4;
    match &r {
        Ok(None) => {
            kani::cover!(true, "fewer than four characters");
            assert!(quads == 0, "C16: a complete base64 quantum was left undecoded");
            assert!(call.buf.len() == N);
        }
        Ok(Some(out)) => {
            kani::cover!(true, "decoded");
            assert!(quads > 0);
            assert!(out.len() == quads * 3, "C16: decoded length differs from the reference");
            assert!(call.buf.len() == N - quads * 4, "C16: leftover characters were not kept for the next chunk");
            let mut q = 0;
            while q < N / 4 {
                let a = b64_val(raw[q * 4]).unwrap() as u32;
                let b = b64_val(raw[q * 4 + 1]).unwrap() as u32;
                let c = b64_val(raw[q * 4 + 2]).unwrap() as u32;
                let d = b64_val(raw[q * 4 + 3]).unwrap() as u32;
                let w = (a << 18) | (b << 12) | (c << 6) | d;
                assert!(out[q * 3] == (w >> 16) as u8 && out[q * 3 + 1] == (w >> 8) as u8 && out[q * 3 + 2] == w as u8,
                        "C16: base64 request bytes decoded wrongly");
                q += 1;
            }
            let mut k = 0;
            while k < N % 4 {
                assert!(call.buf[k] == raw[quads * 4 + k], "C16: leftover characters changed");
                k += 1;
            }
        }
        Err(_) => assert!(false, "C16: valid base64 text rejected"),
    }
    core::mem::forget(r);
    core::mem::forget(call);
}

#[kani::proof]
#[kani::unwind(10)]
#[kani::stub(alloc::fmt::format, fmt_stub)]
fn web_server_b64_chunk_3() {
    server_b64_chunk::<3>()
}
#[kani::proof]
#[kani::unwind(10)]
#[kani::stub(alloc::fmt::format, fmt_stub)]
fn web_server_b64_chunk_4() {
    server_b64_chunk::<4>()
}
#[kani::proof]
#[kani::unwind(10)]
#[kani::stub(alloc::fmt::format, fmt_stub)]
fn web_server_b64_chunk_6() {
    server_b64_chunk::<6>()
}

// ---- R2 kernel: encode_trailers writes one line per trailer VALUE (a repeated name keeps all its values) -----------
#[kani::proof]
#[kani::unwind(12)]
#[kani::stub(alloc::fmt::format, fmt_stub)]
#[kani::stub(std::hash::RandomState::new, random_state_stub)]
fn web_encode_trailers_repeated() {
    let v1: [u8; 1] = kani::any();
    let v2: [u8; 1] = kani::any();
    kani::assume(vis(v1[0]) && vis(v2[0]));
    let mut map = HeaderMap::new();
    map.append(N_A, HeaderValue::from_bytes(&v1).unwrap());
    map.append(N_A, HeaderValue::from_bytes(&v2).unwrap());
    let out = encode_trailers(map);
    assert!(out.len() == 10, "C16: the trailers block does not list every value of a repeated trailer name");
    assert!(out[0] == b'a' && out[1] == b':' && out[2] == v1[0] && out[3] == b'\r' && out[4] == b'\n', "C16: first trailer line wrong");
    assert!(out[5] == b'a' && out[6] == b':' && out[7] == v2[0] && out[8] == b'\r' && out[9] == b'\n', "C16: second trailer line wrong");
    kani::cover!(v1[0] != v2[0], "two different values");
    core::mem::forget(out);
}

