// Kani harnesses injected as a child module of tonic-web/src/service.rs.
// Obligation: C16 R3: request classification (grpc-web iff one of the four content-types; text iff a -text type; everything
// else is "other" with its HTTP version), on a real one-entry header map.
#![allow(dead_code, unused_imports, clippy::all)]
use super::*;
use crate::call::Encoding;

mod common {
    include!("../common.rs");
}
use common::*;

fn method_of(k: u8) -> Method {
    match k % 5 {
        0 => Method::POST,
        1 => Method::GET,
        2 => Method::OPTIONS,
        3 => Method::PUT,
        _ => Method::DELETE,
    }
}
fn version_of(k: u8) -> Version {
    match k % 4 {
        0 => Version::HTTP_10,
        1 => Version::HTTP_11,
        2 => Version::HTTP_2,
        _ => Version::HTTP_3,
    }
}

/// expected: Some(text?) for a grpc-web content-type, None otherwise
fn kind_case(content_type: Option<&'static str>, accept: Option<&'static str>, want_web: Option<bool>, want_accept_text: bool) {
    let mk: u8 = kani::any();
    let vk: u8 = kani::any();
    kani::assume(mk < 5 && vk < 4);
    let method = method_of(mk);
    let version = version_of(vk);
    let mut h = HeaderMap::new();
    if let Some(ct) = content_type {
        h.insert(header::CONTENT_TYPE, HeaderValue::from_static(ct));
    }
    if let Some(a) = accept {
        h.insert(header::ACCEPT, HeaderValue::from_static(a));
    }
    let k = RequestKind::new(&h, &method, version);
    match (&k, want_web) {
        (RequestKind::GrpcWeb { method: m, encoding, accept }, Some(text)) => {
            assert!(**m == method);
            assert!((*encoding == Encoding::Base64) == text, "C16: request body encoding (binary/text) classified wrongly");
            assert!((*accept == Encoding::Base64) == want_accept_text, "C16: response encoding does not follow the Accept header");
            kani::cover!(mk == 0, "POST grpc-web");
            kani::cover!(mk != 0, "non-POST grpc-web (405)");
        }
        (RequestKind::Other(v), None) => {
            assert!(*v == version, "C16: HTTP version lost in classification");
            kani::cover!(vk == 2, "other over HTTP/2 (pass through)");
            kani::cover!(vk != 2, "other over HTTP/1 (400)");
        }
        _ => assert!(false, "C16: request classified into the wrong class (grpc-web vs other)"),
    }
    core::mem::forget(h);
}

macro_rules! kind_harness {
    ($name:ident, $ct:expr, $acc:expr, $web:expr, $acctext:expr) => {
        #[kani::proof]
        #[kani::unwind(34)]
        #[kani::stub(alloc::fmt::format, fmt_stub)]
        #[kani::stub(std::hash::RandomState::new, random_state_stub)]
        fn $name() {
            kind_case($ct, $acc, $web, $acctext)
        }
    };
}
kind_harness!(web_kind_grpc_web, Some("application/grpc-web"), None, Some(false), false);
kind_harness!(web_kind_grpc_web_proto, Some("application/grpc-web+proto"), Some("application/grpc-web-text+proto"), Some(false), true);
kind_harness!(web_kind_grpc_web_text, Some("application/grpc-web-text"), Some("application/grpc-web-text"), Some(true), true);
kind_harness!(web_kind_grpc_web_text_proto, Some("application/grpc-web-text+proto"), Some("application/grpc-web+proto"), Some(true), false);
kind_harness!(web_kind_grpc, Some("application/grpc"), None, None, false);
kind_harness!(web_kind_json, Some("application/json"), None, None, false);
kind_harness!(web_kind_none, None, None, None, false);
