// Kani harnesses injected as a child module of tonic/src/status.rs.
// Obligations: C04 H1..H6, C09 G5, C03 W4.
#![allow(dead_code, unused_imports, clippy::all)]
use super::*;

mod common {
    include!("../common.rs");
}
use common::*;

// reference table: gRPC code numbers (doc/statuscodes.md), written out independently of tonic's enum order
fn ref_code(n: u32) -> Code {
    match n {
        0 => Code::Ok,
        1 => Code::Cancelled,
        2 => Code::Unknown,
        3 => Code::InvalidArgument,
        4 => Code::DeadlineExceeded,
        5 => Code::NotFound,
        6 => Code::AlreadyExists,
        7 => Code::PermissionDenied,
        8 => Code::ResourceExhausted,
        9 => Code::FailedPrecondition,
        10 => Code::Aborted,
        11 => Code::OutOfRange,
        12 => Code::Unimplemented,
        13 => Code::Internal,
        14 => Code::Unavailable,
        15 => Code::DataLoss,
        16 => Code::Unauthenticated,
        _ => Code::Unknown,
    }
}

/// reference grammar for the grpc-status header: "0".."16" in canonical decimal, anything else UNKNOWN
fn ref_code_from_bytes(b: &[u8]) -> Code {
    let dig = |x: u8| x >= b'0' && x <= b'9';
    if b.len() == 1 && dig(b[0]) {
        return ref_code((b[0] - b'0') as u32);
    }
    if b.len() == 2 && b[0] == b'1' && dig(b[1]) && b[1] <= b'6' {
        return ref_code(10 + (b[1] - b'0') as u32);
    }
    Code::Unknown
}

// ---- H1 ---------------------------------------------------------------------------------------
#[kani::proof]
#[kani::unwind(18)]
#[kani::stub(alloc::fmt::format, fmt_stub)]
fn st_code_from_bytes() {
    let raw: [u8; 16] = kani::any();
    let len: usize = kani::any();
    kani::assume(len <= 16);
    let got = Code::from_bytes(&raw[..len]);
    let want = ref_code_from_bytes(&raw[..len]);
    assert!(got == want, "C04: grpc-status text parsed to the wrong code");
    kani::cover!(len == 2 && got == Code::Unauthenticated, "two-digit code");
    kani::cover!(len == 1 && got == Code::NotFound, "one-digit code");
    kani::cover!(len == 2 && got == Code::Unknown, "malformed two bytes");
    kani::cover!(len == 16, "long value");
}

#[kani::proof]
#[kani::unwind(5)]
#[kani::stub(alloc::fmt::format, fmt_stub)]
fn st_code_roundtrip() {
    let n: u32 = kani::any();
    kani::assume(n <= 16);
    let c = ref_code(n);
    assert!(Code::from_i32(n as i32) == c, "C04: from_i32 disagrees with the gRPC code table");
    assert!(i32::from(c) == n as i32, "C04: code number written differs from the gRPC code table");
    let hv = c.to_header_value();
    let b = hv.as_bytes();
    // the written text is the canonical decimal of n
    if n < 10 {
        assert!(b.len() == 1 && b[0] == b'0' + n as u8, "C04: grpc-status text is not the decimal code");
    } else {
        assert!(b.len() == 2 && b[0] == b'1' && b[1] == b'0' + (n - 10) as u8, "C04: grpc-status text is not the decimal code");
    }
    assert!(Code::from_bytes(b) == c, "C04: code does not survive the header encoding");
    kani::cover!(n == 16, "last code");
    core::mem::forget(hv);
}

#[kani::proof]
#[kani::stub(alloc::fmt::format, fmt_stub)]
fn st_code_from_i32_total() {
    let i: i32 = kani::any();
    let c = Code::from_i32(i);
    if i >= 0 && i <= 16 {
        assert!(c == ref_code(i as u32));
    } else {
        assert!(c == Code::Unknown, "C04: out-of-range code must become UNKNOWN");
    }
    kani::cover!(i == -1, "negative");
}

// ---- H5: HTTP status -> gRPC code when no grpc-status is available ------------------------------
#[kani::proof]
#[kani::unwind(4)]
#[kani::stub(alloc::fmt::format, fmt_stub)]
fn st_infer_http() {
    let raw: u16 = kani::any();
    kani::assume(raw >= 100 && raw <= 599);
    let sc = http::StatusCode::from_u16(raw).unwrap();
    let r = infer_grpc_status(None, sc);
    let want = match raw {
        400 => Some(Code::Internal),
        401 => Some(Code::Unauthenticated),
        403 => Some(Code::PermissionDenied),
        404 => Some(Code::Unimplemented),
        429 | 502 | 503 | 504 => Some(Code::Unavailable),
        200 => None,
        _ => Some(Code::Unknown),
    };
    match (&r, want) {
        (Err(None), None) => {
            kani::cover!(true, "200 without trailers");
        }
        (Err(Some(s)), Some(c)) => {
            kani::cover!(raw == 429, "429");
            kani::cover!(raw == 418, "other non-200");
            assert!(s.code() == c, "C04: HTTP status mapped to the wrong gRPC code");
        }
        _ => assert!(false, "C04: HTTP status classification differs from the gRPC mapping table"),
    }
    core::mem::forget(r);
}

// ---- H6 (transport config): HTTP/2 error code -> gRPC code ---------------------------------------
#[cfg(feature = "server")]
#[kani::proof]
#[kani::unwind(4)]
#[kani::stub(alloc::fmt::format, fmt_stub)]
fn st_h2_reason_map() {
    let raw: u32 = kani::any();
    let reason = h2::Reason::from(raw);
    let err: h2::Error = reason.into();
    let got = Status::code_from_h2(&err);
    // gRPC PROTOCOL-HTTP2 "Errors" table, as far as the property statement lists it
    let want = match raw {
        0x8 => Some(Code::Cancelled),          // CANCEL
        0x7 => Some(Code::Unavailable),        // REFUSED_STREAM
        0xb => Some(Code::ResourceExhausted),  // ENHANCE_YOUR_CALM
        0xc => Some(Code::PermissionDenied),   // INADEQUATE_SECURITY
        0x0 | 0x1 | 0x2 | 0x3 | 0x4 | 0x9 | 0xa => Some(Code::Internal), // protocol-level codes
        _ => None,
    };
    if let Some(w) = want {
        assert!(got == w, "C04: HTTP/2 error code mapped to the wrong gRPC code");
    } else {
        // FRAME_SIZE_ERROR(6), STREAM_CLOSED(5), HTTP_1_1_REQUIRED(13) and unknown codes: tonic answers UNKNOWN today;
        // the statement does not list them, so only totality is required here.
        assert!(got == Code::Unknown || got == Code::Internal);
    }
    kani::cover!(raw == 0x8, "cancel");
    kani::cover!(raw == 0xb, "calm");
    kani::cover!(raw > 13, "unknown reason");
    core::mem::forget(err);
}

#[cfg(feature = "server")]
#[kani::proof]
#[kani::unwind(4)]
#[kani::stub(alloc::fmt::format, fmt_stub)]
fn st_to_h2_error() {
    let n: u32 = kani::any();
    kani::assume(n <= 16);
    let s = Status::new(ref_code(n), "");
    let e = s.to_h2_error();
    if n == 1 {
        assert!(e.reason() == Some(h2::Reason::CANCEL), "C04: CANCELLED must reset the stream with CANCEL");
    } else {
        assert!(e.reason() == Some(h2::Reason::INTERNAL_ERROR));
    }
    kani::cover!(n == 1, "cancelled");
    core::mem::forget(e);
    core::mem::forget(s);
}

// ---- H4: Status::from_header_map is total over peer-supplied header values --------------------------
fn legal_value_byte(b: u8) -> bool {
    // http::HeaderValue accepts: HTAB, 0x20..=0x7e, 0x80..=0xff
    b == b'\t' || (b >= 0x20 && b != 0x7f)
}

fn hv<const N: usize>(bytes: &'static [u8; N]) -> HeaderValue {
    HeaderValue::from_bytes(&bytes[..]).unwrap()
}

fn any_value<const N: usize>() -> ([u8; N], HeaderValue) {
    let raw: [u8; N] = kani::any();
    let mut i = 0;
    while i < N {
        kani::assume(legal_value_byte(raw[i]));
        i += 1;
    }
    let v = HeaderValue::from_bytes(&raw[..]).unwrap();
    (raw, v)
}

fn fhm_status<const N: usize>() {
    let (raw, v) = any_value::<N>();
    let mut map = HeaderMap::new();
    map.insert(Status::GRPC_STATUS, v);
    let got = Status::from_header_map(&map);
    match &got {
        Some(s) => {
            assert!(s.code() == ref_code_from_bytes(&raw[..]), "C04: grpc-status header read as the wrong code");
            assert!(s.message().is_empty());
            assert!(s.details().is_empty());
            kani::cover!(s.code() == Code::Internal, "a real code");
            kani::cover!(s.code() == Code::Unknown, "unknown");
        }
        None => assert!(false, "C04: grpc-status present but no status produced"),
    }
    core::mem::forget(got);
    core::mem::forget(map);
}

#[kani::proof]
#[kani::unwind(10)]
#[kani::stub(alloc::fmt::format, fmt_stub)]
#[kani::stub(std::hash::RandomState::new, random_state_stub)]
fn st_fhm_status_1() {
    fhm_status::<1>()
}
#[kani::proof]
#[kani::unwind(10)]
#[kani::stub(alloc::fmt::format, fmt_stub)]
#[kani::stub(std::hash::RandomState::new, random_state_stub)]
fn st_fhm_status_2() {
    fhm_status::<2>()
}

#[kani::proof]
#[kani::unwind(10)]
#[kani::stub(alloc::fmt::format, fmt_stub)]
#[kani::stub(std::hash::RandomState::new, random_state_stub)]
fn st_fhm_absent() {
    let map = HeaderMap::new();
    assert!(Status::from_header_map(&map).is_none(), "C04: a status was invented without grpc-status");
    kani::cover!(true, "absent");
    core::mem::forget(map);
}

/// details header with N arbitrary legal bytes: never a panic; undecodable => error status (UNKNOWN), not silently dropped
fn fhm_details<const N: usize>() {
    let (raw, v) = any_value::<N>();
    let mut map = HeaderMap::new();
    map.insert(Status::GRPC_STATUS, HeaderValue::from_static("5"));
    map.insert(Status::GRPC_STATUS_DETAILS, v);
    let got = Status::from_header_map(&map);
    let is_b64 = |c: u8| (c >= b'A' && c <= b'Z') || (c >= b'a' && c <= b'z') || (c >= b'0' && c <= b'9') || c == b'+' || c == b'/';
    let mut all_alpha = true;
    let mut i = 0;
    while i < N {
        if !is_b64(raw[i]) {
            all_alpha = false;
        }
        i += 1;
    }
    match &got {
        Some(s) => {
            if !all_alpha && !(N >= 2 && raw[N - 1] == b'=') {
                // a byte outside the base64 alphabet (and not trailing padding) can never decode
                kani::cover!(true, "undecodable details");
                assert!(s.code() == Code::Unknown, "C04: undecodable details must degrade to an error status");
                assert!(s.details().is_empty());
            }
            if s.code() == Code::NotFound {
                kani::cover!(true, "decoded details");
                // decoded length of N unpadded base64 characters
                assert!(all_alpha || raw[N - 1] == b'=');
            }
        }
        None => assert!(false, "C04: grpc-status present but no status produced"),
    }
    core::mem::forget(got);
    core::mem::forget(map);
}

#[kani::proof]
#[kani::unwind(10)]
#[kani::stub(alloc::fmt::format, fmt_stub)]
#[kani::stub(std::hash::RandomState::new, random_state_stub)]
fn st_fhm_details_2() {
    fhm_details::<2>()
}
#[kani::proof]
#[kani::unwind(10)]
#[kani::stub(alloc::fmt::format, fmt_stub)]
#[kani::stub(std::hash::RandomState::new, random_state_stub)]
fn st_fhm_details_3() {
    fhm_details::<3>()
}


// ---- H2 (encode side): the grpc-message header written for a one-character message --------------------------------
fn hex(n: u8) -> u8 {
    if n < 10 {
        b'0' + n
    } else {
        b'A' + (n - 10)
    }
}
/// characters that must be percent-escaped in grpc-message: controls, non-ASCII, space and the gRPC reserved punctuation
fn must_escape(b: u8) -> bool {
    b < 0x20 || b >= 0x7f || b == b' ' || b == b'"' || b == b'#' || b == b'%' || b == b'<' || b == b'>' || b == b'`' || b == b'?'
        || b == b'{' || b == b'}'
}

#[kani::proof]
#[kani::unwind(12)]
#[kani::stub(alloc::fmt::format, fmt_stub)]
#[kani::stub(std::hash::RandomState::new, random_state_stub)]
fn st_add_header_msg1() {
    let c: u8 = kani::any();
    kani::assume(c < 0x80); // one ASCII character (a one-byte UTF-8 string)
    let n: u32 = kani::any();
    kani::assume(n <= 16);
    let msg = core::str::from_utf8(core::slice::from_ref(&c)).unwrap();
    let st = Status::new(ref_code(n), msg);
    let map = st.to_header_map();
    match &map {
        Ok(m) => {
            match m.get(Status::GRPC_STATUS) {
                Some(v) => assert!(Code::from_bytes(v.as_bytes()) == ref_code(n), "C04: grpc-status written wrongly"),
                None => assert!(false, "C04: no grpc-status written"),
            }
            match m.get(Status::GRPC_MESSAGE) {
                Some(v) => {
                    let b = v.as_bytes();
                    if must_escape(c) {
                        kani::cover!(c == b'%', "percent sign");
                        assert!(b.len() == 3 && b[0] == b'%' && b[1] == hex(c >> 4) && b[2] == hex(c & 15),
                                "C04: a character that needs escaping was written unescaped (the message would not read back equal)");
                    } else {
                        kani::cover!(c == b'a', "plain character");
                        assert!(b.len() == 1 && b[0] == c, "C04: a plain character was altered");
                    }
                }
                None => assert!(false, "C04: grpc-message missing for a non-empty message"),
            }
            assert!(m.get(Status::GRPC_STATUS_DETAILS).is_none());
        }
        Err(_) => assert!(false, "C04: a legal status could not be written to headers"),
    }
    core::mem::forget(map);
    core::mem::forget(st);
}

// ---- metadata attached to an error status reaches the headers: repeated key keeps all values in order, reserved name dropped ----
const K_USER: HeaderName = HeaderName::from_static("x-a");

#[kani::proof]
#[kani::unwind(12)]
#[kani::stub(alloc::fmt::format, fmt_stub)]
#[kani::stub(std::hash::RandomState::new, random_state_stub)]
fn st_add_header_repeated_md() {
    let v1: u8 = kani::any();
    let v2: u8 = kani::any();
    kani::assume(v1 >= 0x21 && v1 < 0x7f && v2 >= 0x21 && v2 < 0x7f);
    let mut h = HeaderMap::new();
    h.append(K_USER, HeaderValue::from_bytes(core::slice::from_ref(&v1)).unwrap());
    h.append(K_USER, HeaderValue::from_bytes(core::slice::from_ref(&v2)).unwrap());
    let st = Status::with_metadata(Code::NotFound, "", MetadataMap::from_headers(h));
    let out = st.to_header_map();
    match &out {
        Ok(m) => {
            let mut it = m.get_all(&K_USER).iter();
            match (it.next(), it.next(), it.next()) {
                (Some(a), Some(b), None) => {
                    assert!(a.as_bytes().len() == 1 && a.as_bytes()[0] == v1, "C08: first value of a repeated metadata key changed");
                    assert!(b.as_bytes().len() == 1 && b.as_bytes()[0] == v2, "C08: second value of a repeated metadata key changed");
                }
                _ => assert!(false, "C08/C02: a repeated metadata key of an error status lost or gained values"),
            }
            assert!(m.get(Status::GRPC_STATUS).is_some());
            kani::cover!(v1 != v2, "two different values");
        }
        Err(_) => assert!(false),
    }
    core::mem::forget(out);
    core::mem::forget(st);
}

// ---- G5 / C14: errors found in a source chain are classified: TimeoutExpired => CANCELLED, ConnectError => UNAVAILABLE -----------
fn fmt_write_stub(_out: &mut dyn fmt::Write, _args: fmt::Arguments<'_>) -> fmt::Result {
    Ok(()) // message texts are outside the claim (DESIGN §3.4)
}

#[derive(Debug)]
struct Leaf;
impl fmt::Display for Leaf {
    fn fmt(&self, _f: &mut fmt::Formatter<'_>) -> fmt::Result {
        Ok(())
    }
}
impl Error for Leaf {}

#[derive(Debug)]
struct Wrap(u8, TimeoutExpired, Leaf);
impl fmt::Display for Wrap {
    fn fmt(&self, _f: &mut fmt::Formatter<'_>) -> fmt::Result {
        Ok(())
    }
}
impl Error for Wrap {
    fn source(&self) -> Option<&(dyn Error + 'static)> {
        if self.0 == 0 {
            Some(&self.1) // a timeout one level down the chain
        } else if self.0 == 1 {
            Some(&self.2) // an unrelated cause
        } else {
            None
        }
    }
}

fn expect_cancelled(got: &Option<Status>) {
    match got {
        Some(s) => assert!(s.code() == Code::Cancelled, "C09: an expired timeout must surface as CANCELLED"),
        None => assert!(false, "C09: an expired timeout was not recognised in the error chain"),
    }
}
#[kani::proof]
#[kani::unwind(5)]
#[kani::stub(alloc::fmt::format, fmt_stub)]
#[kani::stub(core::fmt::write, fmt_write_stub)]
fn st_timeout_direct() {
    let got = find_status_in_source_chain(&TimeoutExpired(()));
    expect_cancelled(&got);
    kani::cover!(true, "direct");
    core::mem::forget(got);
}
#[kani::proof]
#[kani::unwind(5)]
#[kani::stub(alloc::fmt::format, fmt_stub)]
#[kani::stub(core::fmt::write, fmt_write_stub)]
fn st_timeout_nested() {
    let e = Wrap(0, TimeoutExpired(()), Leaf);
    let got = find_status_in_source_chain(&e);
    expect_cancelled(&got);
    kani::cover!(true, "nested");
    core::mem::forget(got);
}
#[kani::proof]
#[kani::unwind(5)]
#[kani::stub(alloc::fmt::format, fmt_stub)]
#[kani::stub(core::fmt::write, fmt_write_stub)]
fn st_chain_unrelated() {
    let e = Wrap(1, TimeoutExpired(()), Leaf);
    let got = find_status_in_source_chain(&e);
    assert!(got.is_none(), "C04: a status was invented for an unrelated error");
    kani::cover!(true, "unrelated");
    core::mem::forget(got);
}

#[kani::proof]
#[kani::unwind(5)]
#[kani::stub(alloc::fmt::format, fmt_stub)]
#[kani::stub(core::fmt::write, fmt_write_stub)]
fn st_connect_error_unavailable() {
    let e = ConnectError(Box::new(Leaf));
    let got = find_status_in_source_chain(&e);
    match &got {
        Some(s) => {
            kani::cover!(true, "connect error");
            assert!(s.code() == Code::Unavailable, "C14: a failed connection attempt must surface as UNAVAILABLE");
        }
        None => assert!(false, "C14: connect error not recognised"),
    }
    core::mem::forget(got);
    core::mem::forget(e);
}


