// Kani harnesses injected as a child module of tonic/src/metadata/key.rs.
// Obligation: C08: a key can be created as ASCII (resp. binary) exactly when it is a valid header name without (resp. with)
// the -bin suffix, so a binary entry can never be created under an ASCII key and vice versa.
#![allow(dead_code, unused_imports, clippy::all)]
use super::*;

mod common {
    include!("../common.rs");
}
use common::*;

fn key_case<const N: usize>() {
    let raw: [u8; N] = kani::any();
    let name_ok = HeaderName::from_bytes(&raw[..]).is_ok(); // validity of a header name is http's definition
    // suffix test on the lower-cased bytes (header names are case-insensitive and stored lower-case)
    let lc = |b: u8| if b >= b'A' && b <= b'Z' { b + 32 } else { b };
    let bin = N >= 4 && lc(raw[N - 4]) == b'-' && lc(raw[N - 3]) == b'b' && lc(raw[N - 2]) == b'i' && lc(raw[N - 1]) == b'n';
    let a = MetadataKey::<Ascii>::from_bytes(&raw[..]);
    let b = MetadataKey::<Binary>::from_bytes(&raw[..]);
    assert!(a.is_ok() == (name_ok && !bin), "C08: ASCII key accepted/rejected wrongly");
    assert!(b.is_ok() == (name_ok && bin), "C08: binary key accepted/rejected wrongly");
    assert!(!(a.is_ok() && b.is_ok()), "C08: one key is both ASCII and binary");
    kani::cover!(b.is_ok(), "binary key");
    kani::cover!(a.is_ok(), "ascii key");
    kani::cover!(!name_ok, "invalid header name");
    core::mem::forget(a);
    core::mem::forget(b);
}

#[kani::proof]
#[kani::unwind(8)]
#[kani::stub(alloc::fmt::format, fmt_stub)]
fn md_key_from_bytes_3() {
    key_case::<3>()
}
#[kani::proof]
#[kani::unwind(8)]
#[kani::stub(alloc::fmt::format, fmt_stub)]
fn md_key_from_bytes_5() {
    key_case::<5>()
}
