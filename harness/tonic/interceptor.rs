// Kani harnesses injected as a child module of tonic/src/service/interceptor.rs.
// Obligation: C12: an accepting interceptor changes nothing but what it changes; a rejecting one vetoes the call.
#![allow(dead_code, unused_imports, clippy::all, static_mut_refs)]
use super::*;
use crate::Code;
use http::{HeaderValue, Method, Version};

mod common {
    include!("../common.rs");
}
use common::*;

static mut INNER_CALLS: u32 = 0;
static mut SEEN_METHOD: u8 = 255;
static mut SEEN_VERSION: u8 = 255;
static mut SEEN_PATH_OK: bool = false;
static mut SEEN_TE: bool = false;
static mut SEEN_MARK: bool = false;
static mut SEEN_BODY: u32 = 0;

fn method_of(k: u8) -> Method {
    match k % 6 {
        0 => Method::POST,
        1 => Method::GET,
        2 => Method::OPTIONS,
        3 => Method::PUT,
        4 => Method::HEAD,
        _ => Method::DELETE,
    }
}
fn method_id(m: &Method) -> u8 {
    if *m == Method::POST {
        0
    } else if *m == Method::GET {
        1
    } else if *m == Method::OPTIONS {
        2
    } else if *m == Method::PUT {
        3
    } else if *m == Method::HEAD {
        4
    } else if *m == Method::DELETE {
        5
    } else {
        99
    }
}
fn version_of(k: u8) -> Version {
    match k % 5 {
        0 => Version::HTTP_09,
        1 => Version::HTTP_10,
        2 => Version::HTTP_11,
        3 => Version::HTTP_2,
        _ => Version::HTTP_3,
    }
}
fn version_id(v: Version) -> u8 {
    if v == Version::HTTP_09 {
        0
    } else if v == Version::HTTP_10 {
        1
    } else if v == Version::HTTP_11 {
        2
    } else if v == Version::HTTP_2 {
        3
    } else if v == Version::HTTP_3 {
        4
    } else {
        99
    }
}

struct Rec;
impl Service<http::Request<u32>> for Rec {
    type Response = http::Response<u32>;
    type Error = Status;
    type Future = std::future::Ready<Result<http::Response<u32>, Status>>;
    fn poll_ready(&mut self, _: &mut Context<'_>) -> Poll<Result<(), Status>> {
        Poll::Ready(Ok(()))
    }
    fn call(&mut self, req: http::Request<u32>) -> Self::Future {
        unsafe {
            INNER_CALLS += 1;
            SEEN_METHOD = method_id(req.method());
            SEEN_VERSION = version_id(req.version());
            SEEN_PATH_OK = req.uri().path().as_bytes() == b"/p.S/Call";
            SEEN_TE = req.headers().get(http::header::TE).map(|v| v.as_bytes() == b"trailers").unwrap_or(false);
            SEEN_MARK = req.headers().get(http::header::FROM).is_some();
            SEEN_BODY = *req.body();
        }
        core::mem::forget(req);
        std::future::ready(Ok(http::Response::new(7)))
    }
}

#[derive(Clone, Copy)]
struct Act {
    reject: bool,
    code: i32,
    mark: bool, // on accept: add one (standard-name) metadata entry
}
impl Interceptor for Act {
    fn call(&mut self, mut req: crate::Request<()>) -> Result<crate::Request<()>, Status> {
        if self.reject {
            Err(Status::new(Code::from_i32(self.code), ""))
        } else {
            if self.mark {
                req.metadata_mut().insert("from", crate::metadata::MetadataValue::from_static("x"));
            }
            Ok(req)
        }
    }
}

fn run(with_te: bool, mark: bool) {
    let mk: u8 = kani::any();
    let vk: u8 = kani::any();
    kani::assume(mk < 6 && vk < 5);
    let reject: bool = kani::any();
    let code: i32 = kani::any();
    kani::assume(code >= 1 && code <= 16);
    let body: u32 = kani::any();
    unsafe {
        INNER_CALLS = 0;
        SEEN_METHOD = 255;
        SEEN_VERSION = 255;
        SEEN_PATH_OK = false;
        SEEN_TE = false;
        SEEN_MARK = false;
        SEEN_BODY = 0;
    }
    let mut req = http::Request::new(body);
    *req.method_mut() = method_of(mk);
    *req.version_mut() = version_of(vk);
    *req.uri_mut() = http::Uri::from_static("/p.S/Call");
    if with_te {
        // a protocol-reserved name: must reach the wrapped service untouched (no sanitizing on this path)
        req.headers_mut().insert(http::header::TE, HeaderValue::from_static("trailers"));
    }
    let mut svc = InterceptedService::new(Rec, Act { reject, code, mark });
    let fut = svc.call(req);
    let mut fut = fut;
    let mut cx = noop_cx();
    let out = unsafe { Pin::new_unchecked(&mut fut) }.poll(&mut cx);
    if reject {
        kani::cover!(true, "rejected");
        assert!(unsafe { INNER_CALLS } == 0, "C12: the wrapped service was invoked although the interceptor rejected the call");
        match &out {
            Poll::Ready(Ok(resp)) => {
                assert!(resp.status() == http::StatusCode::OK, "C12: a rejection must be a trailers-only gRPC response (HTTP 200)");
                match resp.headers().get(Status::GRPC_STATUS) {
                    Some(v) => assert!(Code::from_bytes(v.as_bytes()) == Code::from_i32(code), "C12: caller received a different status"),
                    None => assert!(false, "C12: rejection response carries no grpc-status"),
                }
                match resp.headers().get(http::header::CONTENT_TYPE) {
                    Some(v) => assert!(v.as_bytes() == b"application/grpc"),
                    None => assert!(false, "C12: rejection response lacks the gRPC content-type"),
                }
                assert!(matches!(resp.body().kind, ResponseBodyKind::Empty), "C12: a rejection must have an empty body");
            }
            _ => assert!(false, "C12: a rejected call must resolve immediately to a response"),
        }
    } else {
        kani::cover!(true, "accepted");
        assert!(unsafe { INNER_CALLS } == 1, "C12: accepted call did not reach the wrapped service exactly once");
        assert!(unsafe { SEEN_METHOD } == mk, "C12: HTTP method changed by the interceptor layer");
        assert!(unsafe { SEEN_VERSION } == vk, "C12: HTTP version changed by the interceptor layer");
        assert!(unsafe { SEEN_PATH_OK }, "C12: URI changed by the interceptor layer");
        assert!(unsafe { SEEN_BODY } == body, "C12: body changed by the interceptor layer");
        assert!(unsafe { SEEN_TE } == with_te, "C12: a header (reserved name) was dropped or invented on the accept path");
        assert!(unsafe { SEEN_MARK } == mark, "C12: the interceptor's metadata change did not reach the wrapped service");
        assert!(matches!(out, Poll::Ready(Ok(_))));
    }
    core::mem::forget(out);
    core::mem::forget(fut);
    core::mem::forget(svc);
}

#[kani::proof]
#[kani::unwind(13)]
#[kani::stub(alloc::fmt::format, fmt_stub)]
#[kani::stub(std::hash::RandomState::new, random_state_stub)]
fn ic_no_headers() {
    run(false, false)
}
#[kani::proof]
#[kani::unwind(13)]
#[kani::stub(alloc::fmt::format, fmt_stub)]
#[kani::stub(std::hash::RandomState::new, random_state_stub)]
fn ic_reserved_header() {
    run(true, false)
}
#[kani::proof]
#[kani::unwind(13)]
#[kani::stub(alloc::fmt::format, fmt_stub)]
#[kani::stub(std::hash::RandomState::new, random_state_stub)]
fn ic_insert_metadata() {
    run(true, true)
}
