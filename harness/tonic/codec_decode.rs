// Kani harnesses injected as a child module of tonic/src/codec/decode.rs (sees its private items).
// Obligations: C06 L1, C05 N4, C07 T1/T2/T3, C01 D1 (step form), C02 S2 (no-map part).
#![allow(dead_code, unused_imports, clippy::all)]
use super::*;
use bytes::Bytes;
use http_body::Frame;

mod common {
    include!("../common.rs");
}
use common::*;

const DEFAULT_LIMIT: usize = 4 * 1024 * 1024; // the statement's "4 MiB by default" (not tonic's constant)

fn mk_inner(body: Body, direction: Direction, limit: Option<usize>) -> StreamingInner {
    StreamingInner {
        body,
        state: State::ReadHeader,
        direction,
        buf: BytesMut::new(),
        trailers: None,
        decompress_buf: BytesMut::new(),
        encoding: None,
        max_message_size: limit,
    }
}

fn any_direction() -> Direction {
    let k: u8 = kani::any();
    match k % 3 {
        0 => Direction::Request,
        1 => Direction::Response(StatusCode::OK),
        _ => Direction::EmptyResponse,
    }
}

fn is_terminal(s: &State) -> bool {
    matches!(s, State::Error(None))
}

// ------------------------------------------------------------------------------------------------
// L1 / N4 / T1(a): the header step of StreamingInner::decode_chunk on 5 + N arbitrary bytes, arbitrary limit.
// ------------------------------------------------------------------------------------------------
fn dec_hdr<const N: usize>() {
    let bytes: [u8; N] = kani::any();
    let limit: Option<usize> = kani::any();
    let mut inner = mk_inner(Body::empty(), any_direction(), limit);
    inner.buf.put_slice(&bytes);
    let cap_before = inner.buf.capacity();
    let (flag, declared) = ref_frame_header(&bytes).unwrap();
    let lim = match limit {
        Some(l) => l,
        None => DEFAULT_LIMIT,
    };
    let payload_avail = N - 5;

    let r = inner.decode_chunk(BufferSettings::default());
    match r {
        Err(ref s) => {
            if flag == 0 {
                kani::cover!(true, "oversized refused");
                assert!(declared > lim, "C06: a message within the limit was refused");
                assert!(s.code() == Code::OutOfRange, "C06: oversized message must be OUT_OF_RANGE");
            } else if flag == 1 {
                kani::cover!(true, "compressed flag without encoding");
                assert!(s.code() == Code::Internal, "C05: compressed flag without negotiated encoding must be INTERNAL");
            } else {
                kani::cover!(true, "illegal flag");
                assert!(s.code() == Code::Internal, "C07: illegal flag must be INTERNAL");
            }
        }
        Ok(ref o) => {
            assert!(flag == 0, "C05/C07: a frame with a non-zero flag was accepted without an encoding");
            assert!(declared <= lim, "C06: a message over the limit was accepted");
            match o {
                Some(db) => {
                    kani::cover!(true, "complete message");
                    assert!(declared <= payload_avail, "C07: message yielded before its payload arrived");
                    assert!(db.remaining() == declared, "C07: decode view has the wrong length");
                }
                None => {
                    kani::cover!(true, "need more payload");
                    assert!(declared > payload_avail, "C01: complete frame at the front was not recognised");
                }
            }
        }
    }
    let was_err = r.is_err();
    core::mem::forget(r);
    if was_err && flag == 0 {
        // "refused as soon as its length prefix has been read, before memory is reserved for it"
        assert!(inner.buf.capacity() <= cap_before, "C06: buffer grew for a refused message");
        assert!(inner.buf.len() == payload_avail, "C06: refusal must happen in the call that consumed the prefix");
    }
    if !was_err {
        match inner.state {
            State::ReadBody { len, compression } => {
                assert!(len == declared);
                assert!(compression.is_none());
            }
            _ => assert!(false, "state after an accepted header must be ReadBody"),
        }
    }
    core::mem::forget(inner);
}

#[kani::proof]
#[kani::unwind(10)]
#[kani::stub(alloc::fmt::format, fmt_stub)]
fn dec_hdr_p0() {
    dec_hdr::<5>()
}
#[kani::proof]
#[kani::unwind(10)]
#[kani::stub(alloc::fmt::format, fmt_stub)]
fn dec_hdr_p1() {
    dec_hdr::<6>()
}
#[kani::proof]
#[kani::unwind(10)]
#[kani::stub(alloc::fmt::format, fmt_stub)]
fn dec_hdr_p3() {
    dec_hdr::<8>()
}
#[kani::proof]
#[kani::unwind(14)]
#[kani::stub(alloc::fmt::format, fmt_stub)]
fn dec_hdr_p7() {
    dec_hdr::<12>()
}
#[kani::proof]
#[kani::unwind(18)]
#[kani::stub(alloc::fmt::format, fmt_stub)]
fn dec_hdr_p11() {
    dec_hdr::<16>()
}
#[kani::proof]
#[kani::unwind(34)]
#[kani::stub(alloc::fmt::format, fmt_stub)]
fn dec_hdr_p27() {
    dec_hdr::<32>()
}

// ------------------------------------------------------------------------------------------------
// D1 step: fewer than 5 bytes buffered => nothing decided, nothing consumed.
// ------------------------------------------------------------------------------------------------
fn dec_short<const N: usize>() {
    let bytes: [u8; N] = kani::any();
    let mut inner = mk_inner(Body::empty(), any_direction(), kani::any());
    inner.buf.put_slice(&bytes);
    let r = inner.decode_chunk(BufferSettings::default());
    assert!(matches!(r, Ok(None)), "C01: a partial prefix must not produce a message or an error");
    core::mem::forget(r);
    assert!(matches!(inner.state, State::ReadHeader));
    assert!(inner.buf.len() == N, "C01: bytes of a partial prefix were consumed");
    let mut i = 0;
    while i < N {
        assert!(inner.buf[i] == bytes[i]);
        i += 1;
    }
    kani::cover!(true, "partial prefix");
    core::mem::forget(inner);
}
#[kani::proof]
#[kani::unwind(7)]
#[kani::stub(alloc::fmt::format, fmt_stub)]
fn dec_short_0() {
    dec_short::<0>()
}
#[kani::proof]
#[kani::unwind(7)]
#[kani::stub(alloc::fmt::format, fmt_stub)]
fn dec_short_4() {
    dec_short::<4>()
}
#[kani::proof]
#[kani::unwind(7)]
#[kani::stub(alloc::fmt::format, fmt_stub)]
fn dec_short_2() {
    dec_short::<2>()
}

// ------------------------------------------------------------------------------------------------
// D1 step, body phase: ReadBody{len} with N buffered bytes: message iff N >= len, view is exactly len.
// ------------------------------------------------------------------------------------------------
fn dec_body<const N: usize>() {
    let bytes: [u8; N] = kani::any();
    let len: usize = kani::any();
    kani::assume(len <= 8);
    let mut inner = mk_inner(Body::empty(), any_direction(), kani::any());
    inner.buf.put_slice(&bytes);
    inner.state = State::ReadBody { compression: None, len };
    let r = inner.decode_chunk(BufferSettings::default());
    match &r {
        Ok(Some(db)) => {
            kani::cover!(true, "payload complete");
            assert!(len <= N);
            assert!(db.remaining() == len);
            let c = db.chunk();
            assert!(c.len() == len, "decode view must expose exactly the payload");
            let mut i = 0;
            while i < N {
                if i < len {
                    assert!(c[i] == bytes[i], "C01: payload bytes differ");
                }
                i += 1;
            }
        }
        Ok(None) => {
            kani::cover!(true, "payload incomplete");
            assert!(len > N, "C01: complete payload not delivered");
        }
        Err(_) => assert!(false, "no error is possible in the body phase without compression"),
    }
    core::mem::forget(r);
    core::mem::forget(inner);
}
#[kani::proof]
#[kani::unwind(6)]
#[kani::stub(alloc::fmt::format, fmt_stub)]
fn dec_body_0() {
    dec_body::<0>()
}
#[kani::proof]
#[kani::unwind(6)]
#[kani::stub(alloc::fmt::format, fmt_stub)]
fn dec_body_3() {
    dec_body::<3>()
}
#[kani::proof]
#[kani::unwind(8)]
#[kani::stub(alloc::fmt::format, fmt_stub)]
fn dec_body_5() {
    dec_body::<5>()
}
#[kani::proof]
#[kani::unwind(11)]
#[kani::stub(alloc::fmt::format, fmt_stub)]
fn dec_body_8() {
    dec_body::<8>()
}
#[kani::proof]
#[kani::unwind(19)]
#[kani::stub(alloc::fmt::format, fmt_stub)]
fn dec_body_16() {
    dec_body16()
}
fn dec_body16() {
    // like dec_body, with len up to 16
    const N: usize = 16;
    let bytes: [u8; N] = kani::any();
    let len: usize = kani::any();
    kani::assume(len <= 16);
    let mut inner = mk_inner(Body::empty(), any_direction(), kani::any());
    inner.buf.put_slice(&bytes);
    inner.state = State::ReadBody { compression: None, len };
    let r = inner.decode_chunk(BufferSettings::default());
    match &r {
        Ok(Some(db)) => {
            kani::cover!(true, "payload complete");
            assert!(db.remaining() == len);
            let c = db.chunk();
            assert!(c.len() == len, "decode view must expose exactly the payload");
            let mut i = 0;
            while i < N {
                if i < len {
                    assert!(c[i] == bytes[i], "C01: payload bytes differ");
                }
                i += 1;
            }
        }
        Ok(None) => assert!(false, "C01: complete payload not delivered"),
        Err(_) => assert!(false, "no error is possible in the body phase without compression"),
    }
    core::mem::forget(r);
    core::mem::forget(inner);
}

// ------------------------------------------------------------------------------------------------
// T1(a)/T3: StreamingInner::poll_frame when the body has ended (Body::empty()).
//   leftover bytes => INTERNAL error; none => Ok(None).  Any state, any direction.
// ------------------------------------------------------------------------------------------------
fn pf_eof<const N: usize>() {
    let bytes: [u8; N] = kani::any();
    let mut inner = mk_inner(Body::empty(), any_direction(), kani::any());
    inner.buf.put_slice(&bytes);
    let in_message: bool = kani::any();
    if in_message {
        // a length prefix has been consumed and its payload is still outstanding
        let len: usize = kani::any();
        inner.state = State::ReadBody { compression: None, len };
    }
    let mut cx = noop_cx();
    let r = inner.poll_frame(&mut cx);
    match &r {
        Poll::Ready(Ok(None)) => {
            kani::cover!(true, "clean end");
            assert!(N == 0 && !in_message, "C07: body ended inside a frame but the stream ended cleanly");
        }
        Poll::Ready(Err(s)) => {
            kani::cover!(true, "unexpected eof");
            assert!(N > 0 || in_message);
            assert!(s.code() == Code::Internal);
        }
        Poll::Ready(Ok(Some(()))) => assert!(false, "no data can arrive from an ended body"),
        Poll::Pending => assert!(false, "C07: an ended body must not leave the stream pending"),
    }
    core::mem::forget(r);
    core::mem::forget(inner);
}
#[kani::proof]
#[kani::unwind(6)]
#[kani::stub(alloc::fmt::format, fmt_stub)]
fn pf_eof_0() {
    pf_eof::<0>()
}
#[kani::proof]
#[kani::unwind(6)]
#[kani::stub(alloc::fmt::format, fmt_stub)]
fn pf_eof_1() {
    pf_eof::<1>()
}
#[kani::proof]
#[kani::unwind(8)]
#[kani::stub(alloc::fmt::format, fmt_stub)]
fn pf_eof_6() {
    pf_eof::<6>()
}

// ------------------------------------------------------------------------------------------------
// T1(b): the glue in Streaming::poll_next: whatever error comes out of decode_chunk or poll_frame, the stream is
// terminal afterwards (State::Error(None)), and a terminal stream yields None without touching body or buffer.
// StreamingInner::poll_frame is replaced by a scripted stub here (its own behaviour is decided by pf_* above);
// decode_chunk and the decoder call are the real code.
// ------------------------------------------------------------------------------------------------
static mut PF_SCRIPT: [u8; 2] = [0; 2];
static mut PF_POS: usize = 0;
static mut PF_CALLS: u32 = 0;

fn poll_frame_stub(_this: &mut StreamingInner, _cx: &mut Context<'_>) -> Poll<Result<Option<()>, Status>> {
    unsafe {
        PF_CALLS += 1;
        if PF_POS >= 2 {
            return Poll::Pending;
        }
        let e = PF_SCRIPT[PF_POS];
        PF_POS += 1;
        match e % 4 {
            0 => Poll::Pending,
            1 => Poll::Ready(Ok(None)),       // body over (or trailers seen)
            2 => Poll::Ready(Ok(Some(()))),   // "data was appended" (the stub appends nothing: the decoder will ask again)
            _ => Poll::Ready(Err(Status::new(Code::Unavailable, ""))),
        }
    }
}

/// stands in for crate::status::infer_grpc_status in the glue harness (the real one is decided by st_infer_http / st_fhm_*):
/// any of its three possible outcomes
fn infer_stub(_trailers: Option<&HeaderMap>, _status: StatusCode) -> Result<(), Option<Status>> {
    let k: u8 = kani::any();
    match k % 3 {
        0 => Ok(()),
        1 => Err(None),
        _ => Err(Some(Status::new(Code::Aborted, ""))),
    }
}

struct CountDec;
impl Decoder for CountDec {
    type Item = usize;
    type Error = Status;
    fn decode(&mut self, src: &mut DecodeBuf<'_>) -> Result<Option<usize>, Status> {
        let n = src.remaining();
        src.advance(n);
        Ok(Some(n))
    }
}

fn pn_glue<const N: usize>() {
    pn_glue_v::<N, 7>()
}

// V bits: 1 = symbolic poll_frame script, 2 = symbolic start state, 4 = symbolic direction and limit
fn pn_glue_v<const N: usize, const V: u32>() {
    let bytes: [u8; N] = kani::any();
    let script: [u8; 2] = if V & 1 != 0 { kani::any() } else { [3, 0] };
    unsafe {
        PF_SCRIPT = script;
        PF_POS = 0;
        PF_CALLS = 0;
    }
    let mut s = Streaming::<usize> {
        decoder: Box::new(CountDec),
        inner: if V & 4 != 0 { mk_inner(Body::empty(), any_direction(), kani::any()) } else { mk_inner(Body::empty(), Direction::Request, None) },
    };
    s.inner.buf.put_slice(&bytes);
    let start_terminal: bool = if V & 2 != 0 { kani::any() } else { false };
    if start_terminal {
        s.inner.state = State::Error(None);
    }
    let mut cx = noop_cx();
    let r = Pin::new(&mut s).poll_next(&mut cx);
    if start_terminal {
        kani::cover!(true, "terminal stays terminal");
        assert!(matches!(r, Poll::Ready(None)), "C07: a stream that reported an error yielded something afterwards");
        assert!(unsafe { PF_CALLS } == 0, "C07: the body was polled again after the stream had failed");
        assert!(s.inner.buf.len() == N, "C07: the buffer was decoded further after the stream had failed");
    }
    match &r {
        Poll::Ready(Some(Err(_))) => {
            kani::cover!(true, "error yielded");
            assert!(is_terminal(&s.inner.state), "C07: the first error is not final (stream not terminal after yielding an error)");
        }
        Poll::Ready(Some(Ok(n))) => {
            kani::cover!(true, "message yielded");
            // only a complete, legal frame at the front of the buffer can produce a message
            let (flag, declared) = ref_frame_header(&bytes).unwrap();
            assert!(flag == 0 && declared + 5 <= N && *n == declared, "C07: yielded message is not a frame of the input");
        }
        Poll::Ready(None) => {
            kani::cover!(!start_terminal, "clean end");
        }
        Poll::Pending => {
            kani::cover!(true, "pending");
            assert!(!is_terminal(&s.inner.state));
        }
    }
    core::mem::forget(r);
    core::mem::forget(s);
}

#[kani::proof]
#[kani::unwind(6)]
#[kani::stub(alloc::fmt::format, fmt_stub)]
#[kani::stub(StreamingInner::poll_frame, poll_frame_stub)]
#[kani::stub(crate::status::infer_grpc_status, infer_stub)]
fn pn_glue_0() {
    pn_glue::<0>()
}
#[kani::proof]
#[kani::unwind(6)]
#[kani::stub(alloc::fmt::format, fmt_stub)]
#[kani::stub(StreamingInner::poll_frame, poll_frame_stub)]
#[kani::stub(crate::status::infer_grpc_status, infer_stub)]
fn pn_glue_5() {
    pn_glue::<5>()
}
#[kani::proof]
#[kani::unwind(6)]
#[kani::stub(alloc::fmt::format, fmt_stub)]
#[kani::stub(StreamingInner::poll_frame, poll_frame_stub)]
#[kani::stub(crate::status::infer_grpc_status, infer_stub)]
fn pn_glue_6() {
    pn_glue::<6>()
}

// ---- deliberately false twin (thorough tier): must come back FAILED, otherwise the family is vacuous ---------------
#[kani::proof]
#[kani::unwind(10)]
#[kani::stub(alloc::fmt::format, fmt_stub)]
fn twin_dec_hdr_false() {
    let bytes: [u8; 6] = kani::any();
    let mut inner = mk_inner(Body::empty(), any_direction(), kani::any());
    inner.buf.put_slice(&bytes);
    let r = inner.decode_chunk(BufferSettings::default());
    core::mem::forget(r);
    core::mem::forget(inner);
    assert!(false, "false twin: this assertion must be reported as violated");
}


// ---- N4 complement (features gzip,deflate,zstd): with a negotiated encoding, flag 1 selects it and flag 0 selects identity ----
/// the real decompressors (flate2, zstd) cannot be executed symbolically; in this harness no payload byte is buffered and the
/// declared length is > 0, so reaching decompression at all is an error
#[cfg(all(feature = "gzip", feature = "deflate", feature = "zstd"))]
fn decompress_unreachable(_s: CompressionSettings, _i: &mut BytesMut, _o: &mut BytesMut, _len: usize) -> Result<(), std::io::Error> {
    assert!(false, "C01: decompression started before the payload arrived");
    kani::assume(false);
    Ok(())
}

#[cfg(all(feature = "gzip", feature = "deflate", feature = "zstd"))]
#[kani::proof]
#[kani::unwind(10)]
#[kani::stub(alloc::fmt::format, fmt_stub)]
#[kani::stub(crate::codec::compression::decompress, decompress_unreachable)]
fn dec_hdr_negotiated() {
    let bytes: [u8; 5] = kani::any();
    kani::assume(bytes[1] != 0 || bytes[2] != 0 || bytes[3] != 0 || bytes[4] != 0); // declared length > 0
    let limit: Option<usize> = kani::any();
    let which: u8 = kani::any();
    let enc = match which % 3 {
        0 => CompressionEncoding::Gzip,
        1 => CompressionEncoding::Deflate,
        _ => CompressionEncoding::Zstd,
    };
    let mut inner = mk_inner(Body::empty(), any_direction(), limit);
    inner.encoding = Some(enc);
    inner.buf.put_slice(&bytes);
    let (flag, declared) = ref_frame_header(&bytes).unwrap();
    let lim = match limit {
        Some(l) => l,
        None => DEFAULT_LIMIT,
    };
    let r = inner.decode_chunk(BufferSettings::default());
    let ok = r.is_ok();
    let code = r.as_ref().err().map(|s| s.code());
    core::mem::forget(r);
    if flag > 1 {
        assert!(code == Some(Code::Internal), "C07: illegal flag must be INTERNAL");
    } else if declared > lim {
        assert!(code == Some(Code::OutOfRange), "C06: the limit applies to the on-the-wire (compressed) length too");
    } else {
        kani::cover!(flag == 1, "compressed frame accepted");
        kani::cover!(flag == 0, "identity frame accepted");
        // declared may be 0: then the (empty) message is complete and decompression is attempted; only the header step is judged here
        if declared > 0 {
            assert!(ok, "C05: a frame of a negotiated encoding was refused");
            match inner.state {
                State::ReadBody { len, compression } => {
                    assert!(len == declared);
                    assert!(compression == if flag == 1 { Some(enc) } else { None },
                            "C05: the compressed flag does not select exactly the negotiated encoding");
                }
                _ => assert!(false),
            }
        }
    }
    core::mem::forget(inner);
}

// ---- X1 decode side: the body phase hands exactly the frame's payload to the (abstract) decompressor and the decoder sees its output
#[cfg(all(feature = "gzip", feature = "deflate", feature = "zstd"))]
static mut DECOMP_ENC: u8 = 0;
#[cfg(all(feature = "gzip", feature = "deflate", feature = "zstd"))]
fn decompress_abstract(s: CompressionSettings, input: &mut BytesMut, out: &mut BytesMut, len: usize) -> Result<(), std::io::Error> {
    unsafe {
        DECOMP_ENC = match s.encoding {
            CompressionEncoding::Gzip => 1,
            CompressionEncoding::Deflate => 2,
            CompressionEncoding::Zstd => 3,
        };
    }
    // inverse of the abstract compressor: drop the tag byte
    if len > 0 {
        out.put_slice(&input[1..len]);
    }
    input.advance(len);
    Ok(())
}

#[cfg(all(feature = "gzip", feature = "deflate", feature = "zstd"))]
#[kani::proof]
#[kani::unwind(8)]
#[kani::stub(alloc::fmt::format, fmt_stub)]
#[kani::stub(crate::codec::compression::decompress, decompress_abstract)]
fn dec_body_compressed() {
    let bytes: [u8; 5] = kani::any();
    let len: usize = kani::any();
    kani::assume(len >= 1 && len <= 5);
    let which: u8 = kani::any();
    let (enc, id) = match which % 3 {
        0 => (CompressionEncoding::Gzip, 1u8),
        1 => (CompressionEncoding::Deflate, 2u8),
        _ => (CompressionEncoding::Zstd, 3u8),
    };
    let mut inner = mk_inner(Body::empty(), any_direction(), kani::any());
    inner.encoding = Some(enc);
    inner.buf.put_slice(&bytes);
    inner.state = State::ReadBody { compression: Some(enc), len };
    let r = inner.decode_chunk(BufferSettings::default());
    match &r {
        Ok(Some(db)) => {
            kani::cover!(true, "decompressed message");
            assert!(unsafe { DECOMP_ENC } == id, "C05: the message was decompressed with a different encoding than negotiated");
            assert!(db.remaining() == len - 1, "C01: the decoder does not see exactly the decompressor's output");
            let c = db.chunk();
            let mut i = 0;
            while i < 4 {
                if i + 1 < len {
                    assert!(c[i] == bytes[i + 1], "C01: decompressed payload differs");
                }
                i += 1;
            }
        }
        _ => assert!(false, "C01: a complete compressed frame was not delivered"),
    }
    core::mem::forget(r);
    assert!(inner.buf.len() == 5 - len, "C01: exactly the frame's payload must be consumed from the stream");
    core::mem::forget(inner);
}
