// Kani harnesses injected as a child module of tonic/src/metadata/encoding.rs.
// Obligations: C08 M3 (binary values survive base64, padded or not), M4 (-bin classification).
#![allow(dead_code, unused_imports, clippy::all)]
use super::value_encoding::Sealed;
use super::*;

mod common {
    include!("../common.rs");
}
use common::*;

/// arithmetic reference base64 (RFC 4648 standard alphabet), no table shared with the base64 crate
fn b64_char(v: u8) -> u8 {
    if v < 26 {
        b'A' + v
    } else if v < 52 {
        b'a' + (v - 26)
    } else if v < 62 {
        b'0' + (v - 52)
    } else if v == 62 {
        b'+'
    } else {
        b'/'
    }
}

/// reference encoding of N (<= 3) bytes without padding; returns (chars, count)
fn ref_b64<const N: usize>(b: &[u8; N]) -> ([u8; 4], usize) {
    let mut out = [0u8; 4];
    if N == 0 {
        return (out, 0);
    }
    let b0 = b[0];
    let b1 = if N > 1 { b[1] } else { 0 };
    let b2 = if N > 2 { b[2] } else { 0 };
    out[0] = b64_char(b0 >> 2);
    out[1] = b64_char(((b0 & 3) << 4) | (b1 >> 4));
    out[2] = b64_char(((b1 & 15) << 2) | (b2 >> 6));
    out[3] = b64_char(b2 & 63);
    (out, N + 1)
}

fn bin_roundtrip<const N: usize>() {
    let raw: [u8; N] = kani::any();
    // what tonic writes on the wire
    let hv = <Binary as Sealed>::from_bytes(&raw[..]).unwrap();
    let wire = hv.as_bytes();
    let (want, n) = ref_b64::<N>(&raw);
    assert!(wire.len() == n, "C08: binary metadata is not written as unpadded base64");
    let mut i = 0;
    while i < 4 {
        if i < n {
            assert!(wire[i] == want[i], "C08: binary metadata is not written as standard base64");
        }
        i += 1;
    }
    // reading it back (unpadded, as tonic writes it)
    let back = <Binary as Sealed>::decode(wire);
    match &back {
        Ok(b) => {
            assert!(b.len() == N, "C08: binary metadata value changed length on the round trip");
            let mut j = 0;
            while j < N {
                assert!(b[j] == raw[j], "C08: binary metadata value changed on the round trip");
                j += 1;
            }
        }
        Err(_) => assert!(false, "C08: tonic cannot read back its own binary metadata"),
    }
    // a peer that pads: the same characters followed by '=' up to a multiple of four
    let mut padded = [b'='; 4];
    i = 0;
    while i < 4 {
        if i < n {
            padded[i] = want[i];
        }
        i += 1;
    }
    let plen = if N == 0 { 0 } else { 4 };
    let back2 = <Binary as Sealed>::decode(&padded[..plen]);
    match &back2 {
        Ok(b) => {
            assert!(b.len() == N, "C08: padded binary metadata decoded to a different length");
            let mut j = 0;
            while j < N {
                assert!(b[j] == raw[j], "C08: padded binary metadata decoded to different bytes");
                j += 1;
            }
        }
        Err(_) => assert!(false, "C08: padded binary metadata from a peer is rejected"),
    }
    kani::cover!(true, "round trip done");
    core::mem::forget(back);
    core::mem::forget(back2);
    core::mem::forget(hv);
}

#[kani::proof]
#[kani::unwind(8)]
#[kani::stub(alloc::fmt::format, fmt_stub)]
fn md_bin_roundtrip_0() {
    bin_roundtrip::<0>()
}
#[kani::proof]
#[kani::unwind(8)]
#[kani::stub(alloc::fmt::format, fmt_stub)]
fn md_bin_roundtrip_1() {
    bin_roundtrip::<1>()
}
#[kani::proof]
#[kani::unwind(8)]
#[kani::stub(alloc::fmt::format, fmt_stub)]
fn md_bin_roundtrip_2() {
    bin_roundtrip::<2>()
}
#[kani::proof]
#[kani::unwind(8)]
#[kani::stub(alloc::fmt::format, fmt_stub)]
fn md_bin_roundtrip_3() {
    bin_roundtrip::<3>()
}

// ---- M4: classification by the -bin suffix --------------------------------------------------------
#[kani::proof]
#[kani::unwind(10)]
#[kani::stub(alloc::fmt::format, fmt_stub)]
fn md_key_classification() {
    let raw: [u8; 7] = kani::any();
    let len: usize = kani::any();
    kani::assume(len <= 7);
    let mut i = 0;
    while i < 7 {
        kani::assume(raw[i] < 0x80); // header names are ASCII
        i += 1;
    }
    let key = core::str::from_utf8(&raw[..len]).unwrap();
    let want = len >= 4 && raw[len - 4] == b'-' && raw[len - 3] == b'b' && raw[len - 2] == b'i' && raw[len - 1] == b'n';
    assert!(<Binary as ValueEncoding>::is_valid_key(key) == want, "C08: -bin suffix classification is wrong");
    assert!(<Ascii as ValueEncoding>::is_valid_key(key) == !want, "C08: a key is both or neither of ASCII and binary");
    kani::cover!(want, "binary key");
    kani::cover!(!want && len >= 4, "ascii key of length >= 4");
}

// ---- M3 (read side): a peer's binary value decodes to the same bytes whether or not it is padded -------------------
fn b64_val(c: u8) -> Option<u8> {
    if c >= b'A' && c <= b'Z' {
        Some(c - b'A')
    } else if c >= b'a' && c <= b'z' {
        Some(c - b'a' + 26)
    } else if c >= b'0' && c <= b'9' {
        Some(c - b'0' + 52)
    } else if c == b'+' {
        Some(62)
    } else if c == b'/' {
        Some(63)
    } else {
        None
    }
}

/// K = number of significant base64 characters (2 or 3), PAD = number of '=' appended (0 or 4-K)
fn bin_decode_case<const K: usize, const PAD: usize>() {
    let c: [u8; 3] = kani::any();
    let v0 = b64_val(c[0]);
    let v1 = b64_val(c[1]);
    let v2 = b64_val(c[2]);
    kani::assume(v0.is_some() && v1.is_some() && v2.is_some());
    let (a, b, d) = (v0.unwrap() as u32, v1.unwrap() as u32, v2.unwrap() as u32);
    // canonical encodings only (trailing bits zero), which is what every encoder emits
    if K == 2 {
        kani::assume(b & 15 == 0);
    } else {
        kani::assume(d & 3 == 0);
    }
    let mut wire = [b'='; 4];
    wire[0] = c[0];
    wire[1] = c[1];
    if K == 3 {
        wire[2] = c[2];
    }
    let got = <Binary as Sealed>::decode(&wire[..K + PAD]);
    match &got {
        Ok(bytes) => {
            assert!(bytes.len() == K - 1, "C08: binary metadata decoded to the wrong length");
            assert!(bytes[0] == ((a << 2) | (b >> 4)) as u8, "C08: binary metadata decoded to different bytes");
            if K == 3 {
                assert!(bytes[1] == (((b & 15) << 4) | (d >> 2)) as u8, "C08: binary metadata decoded to different bytes");
            }
            kani::cover!(true, "decoded");
        }
        Err(_) => assert!(false, "C08: a peer's binary metadata value was rejected (padded and unpadded spellings must both be accepted)"),
    }
    core::mem::forget(got);
}
#[kani::proof]
#[kani::unwind(8)]
#[kani::stub(alloc::fmt::format, fmt_stub)]
fn md_bin_decode_2_unpadded() {
    bin_decode_case::<2, 0>()
}
#[kani::proof]
#[kani::unwind(8)]
#[kani::stub(alloc::fmt::format, fmt_stub)]
fn md_bin_decode_2_padded() {
    bin_decode_case::<2, 2>()
}
#[kani::proof]
#[kani::unwind(8)]
#[kani::stub(alloc::fmt::format, fmt_stub)]
fn md_bin_decode_3_unpadded() {
    bin_decode_case::<3, 0>()
}
#[kani::proof]
#[kani::unwind(8)]
#[kani::stub(alloc::fmt::format, fmt_stub)]
fn md_bin_decode_3_padded() {
    bin_decode_case::<3, 1>()
}

// ---- M3: padded and unpadded spellings of the same bytes are equal values ---------------------------------------------
#[kani::proof]
#[kani::unwind(8)]
#[kani::stub(alloc::fmt::format, fmt_stub)]
fn md_bin_values_equal_padding() {
    let c: [u8; 2] = kani::any();
    let v0 = b64_val(c[0]);
    let v1 = b64_val(c[1]);
    kani::assume(v0.is_some() && v1.is_some());
    kani::assume(v1.unwrap() & 15 == 0); // canonical one-byte value
    let unpadded = HeaderValue::from_bytes(&[c[0], c[1]]).unwrap();
    let padded = HeaderValue::from_bytes(&[c[0], c[1], b'=', b'=']).unwrap();
    assert!(<Binary as Sealed>::values_equal(&unpadded, &padded), "C08: padded and unpadded spellings of one binary value compare unequal");
    assert!(<Binary as Sealed>::values_equal(&padded, &unpadded));
    let decoded = ((v0.unwrap() << 2) | (v1.unwrap() >> 4)) as u8;
    assert!(<Binary as Sealed>::equals(&padded, &[decoded]), "C08: a padded binary value does not equal its bytes");
    assert!(<Binary as Sealed>::equals(&unpadded, &[decoded]));
    kani::cover!(true, "compared");
    core::mem::forget(unpadded);
    core::mem::forget(padded);
}
