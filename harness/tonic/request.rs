// Kani harnesses injected as a child module of tonic/src/request.rs.
// Obligation: C09 G1: duration_to_grpc_timeout chooses a spec-conformant (value, unit) that never denotes more than the
// requested time and loses less than one unit.
//
// The scratch copy of request.rs is rewritten in ONE place before compilation (vlib/table.py, `rewrites`):
//     Some(format!("{}{}", value, unit))   ->   Some(self::verif_request::record_timeout(value, unit))
// i.e. the formatter call is replaced by a recorder (DESIGN §3.4: formatting gets a stub body); the decimal rendering of
// a u128 <= 99_999_999 and of a char by core::fmt is trusted.  Everything else is the real function body.
#![allow(dead_code, unused_imports, clippy::all, static_mut_refs)]
use super::*;

mod common {
    include!("../common.rs");
}
use common::*;

static mut REC: Option<(u128, char)> = None;

// generic in the value type so that the harness keeps compiling if the implementation changes the integer width it formats
pub(super) fn record_timeout<T: Into<u128>>(value: T, unit: char) -> String {
    unsafe {
        REC = Some((value.into(), unit));
    }
    String::new()
}

const MAX_VALUE: u128 = 99_999_999; // at most 8 digits

// Reference (gRPC PROTOCOL-HTTP2 Timeout + the property statement): value = floor(requested / unit) for the most precise
// unit whose value fits into 8 digits.  floor(d/unit) is exactly what "never longer than requested and less than one unit
// lost" means; the floor divisions are written the way the units nest (60 s = 1 min, 60 min = 1 h), so the solver compares
// like with like instead of proving multiplier/divider equivalences (P24/P35: those do not terminate on a SAT back end).
fn reference(secs: u64, nanos: u32) -> (u128, char) {
    let n: u128 = (secs as u128) * 1_000_000_000 + nanos as u128;
    if n <= MAX_VALUE {
        return (n, 'n');
    }
    let u: u128 = (secs as u128) * 1_000_000 + (nanos / 1_000) as u128;
    if u <= MAX_VALUE {
        return (u, 'u');
    }
    let m: u128 = (secs as u128) * 1_000 + (nanos / 1_000_000) as u128;
    if m <= MAX_VALUE {
        return (m, 'm');
    }
    if secs as u128 <= MAX_VALUE {
        return (secs as u128, 'S');
    }
    let minutes = secs / 60;
    if minutes as u128 <= MAX_VALUE {
        return (minutes as u128, 'M');
    }
    let hours = minutes / 60;
    (hours as u128, 'H')
}

fn check(secs: u64, nanos: u32) {
    let d = Duration::new(secs, nanos);
    unsafe {
        REC = None;
    }
    let s = duration_to_grpc_timeout(d);
    core::mem::forget(s);
    let (v, unit) = unsafe { REC }.expect("a value must have been formatted");
    assert!(v <= MAX_VALUE, "C09: grpc-timeout value has more than 8 digits");
    let (rv, ru) = reference(secs, nanos);
    assert!(unit == ru, "C09: not the most precise unit that fits into 8 digits (or not one of H M S m u n)");
    assert!(v == rv, "C09: the written value is not floor(requested / unit): it denotes a longer time or loses a unit or more");
}

// one harness per magnitude; the inputs are built by masking so that the unused high bits are structurally zero
#[kani::proof]
#[kani::unwind(4)]
#[kani::stub(alloc::fmt::format, fmt_stub)]
fn rq_timeout_subsecond_units() {
    let secs: u64 = (kani::any::<u32>() & 0x1_FFFF) as u64; // < 131_072 s: n, u, m and the first S values
    let nanos: u32 = kani::any::<u32>() & 0x3FFF_FFFF;
    kani::assume(nanos < 1_000_000_000);
    check(secs, nanos);
    kani::cover!(secs == 0 && nanos > 99_999_999, "micro range");
    kani::cover!(secs > 99 && secs < 99_999, "milli range");
    kani::cover!(secs > 99_999, "seconds range");
}
#[kani::proof]
#[kani::unwind(4)]
#[kani::stub(alloc::fmt::format, fmt_stub)]
fn rq_timeout_seconds_minutes() {
    let secs: u64 = kani::any::<u64>() & 0x1_FFFF_FFFF; // < 2^33 = 8.59e9 s  (S up to 1e8, M up to 6e9)
    let nanos: u32 = kani::any::<u32>() & 0x3FFF_FFFF;
    kani::assume(nanos < 1_000_000_000);
    kani::assume(secs >= 100_000);
    check(secs, nanos);
    kani::cover!(secs == 99_999_999, "largest seconds value");
    kani::cover!(secs == 100_000_000, "first value that needs minutes");
    kani::cover!(secs > 99_999_999 * 60 + 59, "first hours");
}
#[kani::proof]
#[kani::unwind(4)]
#[kani::stub(alloc::fmt::format, fmt_stub)]
fn rq_timeout_hours() {
    let secs: u64 = kani::any::<u64>() & 0x7F_FFFF_FFFF; // < 2^39 = 5.5e11 s
    let nanos: u32 = kani::any::<u32>() & 0x3FFF_FFFF;
    kani::assume(nanos < 1_000_000_000);
    kani::assume(secs >= (1u64 << 33) && secs <= 99_999_999 * 3600 + 3599);
    check(secs, nanos);
    kani::cover!(secs == 99_999_999 * 3600 + 3599, "largest representable timeout");
    kani::cover!(secs > 18_446_744_073, "beyond 2^64 nanoseconds");
}
