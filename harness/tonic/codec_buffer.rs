// Kani harnesses injected as a child module of tonic/src/codec/buffer.rs.
// Obligation: C01/C07: DecodeBuf is a view of exactly `len` bytes of the receive buffer; EncodeBuf appends to the send buffer.
#![allow(dead_code, unused_imports, clippy::all)]
use super::*;

mod common {
    include!("../common.rs");
}
use common::*;

#[kani::proof]
#[kani::unwind(10)]
#[kani::stub(alloc::fmt::format, fmt_stub)]
fn buf_decode_view() {
    let raw: [u8; 8] = kani::any();
    let len: usize = kani::any();
    kani::assume(len <= 8);
    let k: usize = kani::any();
    kani::assume(k <= len);
    let mut buf = BytesMut::new();
    buf.put_slice(&raw);
    {
        let mut view = DecodeBuf::new(&mut buf, len);
        assert!(view.remaining() == len, "C01: decode view does not have the frame's payload length");
        let c = view.chunk();
        assert!(c.len() == len, "C01: decode view exposes bytes beyond (or fewer than) the payload");
        let mut i = 0;
        while i < 8 {
            if i < len {
                assert!(c[i] == raw[i]);
            }
            i += 1;
        }
        view.advance(k);
        assert!(view.remaining() == len - k);
        let c2 = view.chunk();
        assert!(c2.len() == len - k, "C01: after advancing, the view must still end at the payload's end");
        if k < len {
            assert!(c2[0] == raw[k]);
        }
    }
    assert!(buf.len() == 8 - k, "C01: consuming from the view must consume exactly those bytes of the stream");
    kani::cover!(k > 0 && k < len, "partial consume");
    kani::cover!(len == 0, "empty message");
    core::mem::forget(buf);
}

#[kani::proof]
#[kani::unwind(10)]
#[kani::stub(alloc::fmt::format, fmt_stub)]
fn buf_encode_append() {
    let pre: [u8; 3] = kani::any();
    let data: [u8; 4] = kani::any();
    let n: usize = kani::any();
    kani::assume(n <= 4);
    let mut buf = BytesMut::new();
    buf.put_slice(&pre);
    {
        let mut eb = EncodeBuf::new(&mut buf);
        eb.reserve(n);
        eb.put_slice(&data[..n]);
    }
    assert!(buf.len() == 3 + n, "C01: EncodeBuf did not append exactly the encoder's bytes");
    let mut i = 0;
    while i < 7 {
        if i < 3 {
            assert!(buf[i] == pre[i], "C01: earlier bytes modified");
        } else if i < 3 + n {
            assert!(buf[i] == data[i - 3]);
        }
        i += 1;
    }
    kani::cover!(n == 4, "full");
    core::mem::forget(buf);
}
