// Kani harnesses injected as a child module of tonic/src/metadata/map.rs.
// Obligations: C08 M1 (reserved names never leave user metadata), M4 (typed accessors never cross ASCII/binary).
#![allow(dead_code, unused_imports, clippy::all)]
use super::*;
use http::{HeaderMap, HeaderName, HeaderValue};

mod common {
    include!("../common.rs");
}
use common::*;

// the six names the property statement reserves (written out here, NOT read from tonic's array)
const R_TE: HeaderName = HeaderName::from_static("te");
const R_UA: HeaderName = HeaderName::from_static("user-agent");
const R_CT: HeaderName = HeaderName::from_static("content-type");
const R_GS: HeaderName = HeaderName::from_static("grpc-status");
const R_GM: HeaderName = HeaderName::from_static("grpc-message");
const R_GMT: HeaderName = HeaderName::from_static("grpc-message-type");
const USER: HeaderName = HeaderName::from_static("x-user");

fn sanitize_case(reserved: HeaderName) {
    let v: [u8; 2] = kani::any();
    kani::assume(v[0] >= 0x20 && v[0] < 0x7f && v[1] >= 0x20 && v[1] < 0x7f);
    let mut h = HeaderMap::new();
    let user_first: bool = kani::any(); // reserved names "in any position"
    if user_first {
        h.insert(USER, HeaderValue::from_bytes(&v[..]).unwrap());
        h.insert(reserved.clone(), HeaderValue::from_static("forged"));
    } else {
        h.insert(reserved.clone(), HeaderValue::from_static("forged"));
        h.insert(USER, HeaderValue::from_bytes(&v[..]).unwrap());
    }
    let md = MetadataMap::from_headers(h);
    let out = md.into_sanitized_headers();
    assert!(out.get(&reserved).is_none(), "C08: a protocol-reserved name was emitted from user metadata");
    match out.get(&USER) {
        Some(x) => {
            let b = x.as_bytes();
            assert!(b.len() == 2 && b[0] == v[0] && b[1] == v[1], "C08: user metadata value changed");
        }
        None => assert!(false, "C08: user metadata entry lost while sanitizing"),
    }
    assert!(out.len() == 1);
    kani::cover!(user_first, "user entry first");
    kani::cover!(!user_first, "reserved entry first");
    core::mem::forget(out);
}

macro_rules! sanitize_harness {
    ($name:ident, $hdr:expr) => {
        #[kani::proof]
        #[kani::unwind(12)]
        #[kani::stub(alloc::fmt::format, fmt_stub)]
        #[kani::stub(std::hash::RandomState::new, random_state_stub)]
        fn $name() {
            sanitize_case($hdr)
        }
    };
}
sanitize_harness!(md_sanitize_te, R_TE);
sanitize_harness!(md_sanitize_user_agent, R_UA);
sanitize_harness!(md_sanitize_content_type, R_CT);
sanitize_harness!(md_sanitize_grpc_status, R_GS);
sanitize_harness!(md_sanitize_grpc_message, R_GM);
sanitize_harness!(md_sanitize_grpc_message_type, R_GMT);

// ---- typed accessors: an entry is visible through exactly the accessor of its kind --------------------
const K_ASCII: HeaderName = HeaderName::from_static("x-a");
const K_BIN: HeaderName = HeaderName::from_static("x-a-bin");

#[kani::proof]
#[kani::unwind(12)]
#[kani::stub(alloc::fmt::format, fmt_stub)]
#[kani::stub(std::hash::RandomState::new, random_state_stub)]
fn md_typed_access() {
    let binary: bool = kani::any();
    let mut h = HeaderMap::new();
    h.insert(if binary { K_BIN } else { K_ASCII }, HeaderValue::from_static("QQ"));
    let md = MetadataMap::from_headers(h);
    let key = if binary { "x-a-bin" } else { "x-a" };
    let as_ascii = md.get(key).is_some();
    let as_bin = md.get_bin(key).is_some();
    assert!(as_ascii == !binary, "C08: a binary entry is presented as ASCII (or an ASCII entry is hidden)");
    assert!(as_bin == binary, "C08: an ASCII entry is presented as binary (or a binary entry is hidden)");
    let mut n = 0;
    for kv in md.iter() {
        n += 1;
        match kv {
            KeyAndValueRef::Ascii(_, _) => assert!(!binary, "C08: iterator presents a binary entry as ASCII"),
            KeyAndValueRef::Binary(_, _) => assert!(binary, "C08: iterator presents an ASCII entry as binary"),
        }
    }
    assert!(n == 1);
    kani::cover!(binary, "binary entry");
    kani::cover!(!binary, "ascii entry");
    core::mem::forget(md);
}
