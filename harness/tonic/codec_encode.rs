// Kani harnesses injected as a child module of tonic/src/codec/encode.rs.
// Obligations: C01 E1/E2, C03 W1/W2, C06 L2/L3, C02 S1.
#![allow(dead_code, unused_imports, clippy::all)]
use super::*;
use crate::Code;

mod common {
    include!("../common.rs");
}
use common::*;

// ------------------------------------------------------------------------------------------------
// environment: a byte-copy encoder and a scripted message source
// ------------------------------------------------------------------------------------------------
#[derive(Clone, Copy)]
struct Msg {
    len: usize, // <= 2
    data: [u8; 2],
    enc_fail: bool, // the encoder itself reports an error for this item
}

fn any_msg<const L: usize, const MODE: u32>() -> Msg {
    // the length is concrete per harness instance (DESIGN P3: symbolic lengths into buffers are ~15x slower)
    Msg { len: L, data: kani::any(), enc_fail: if MODE & 2 != 0 { kani::any() } else { false } }
}

struct CopyEnc {
    settings: BufferSettings,
}
impl Encoder for CopyEnc {
    type Item = Msg;
    type Error = Status;
    fn encode(&mut self, item: Msg, dst: &mut EncodeBuf<'_>) -> Result<(), Status> {
        // a failing encoder may have written part of its output already
        dst.put_slice(&item.data[..item.len]);
        if item.enc_fail {
            return Err(Status::new(Code::DataLoss, ""));
        }
        Ok(())
    }
    fn buffer_settings(&self) -> BufferSettings {
        self.settings
    }
}

#[derive(Clone, Copy)]
enum Ev {
    Pending,
    End,
    Item(Msg),
    Fail(u8), // source error; payload picks the code
}

// MODE bits: 1 = source errors possible, 2 = encoder errors possible, 4 = a saved error may be pending,
//            8 = symbolic send limit, 16 = symbolic yield threshold, 32 = compare chunk *length* only (bytes: see enc_item_*),
//            64 = buffer created with spare capacity
fn any_ev<const L: usize, const MODE: u32>() -> Ev {
    let k: u8 = kani::any();
    match k % 4 {
        0 => Ev::Pending,
        1 => Ev::End,
        2 => Ev::Item(any_msg::<L, MODE>()),
        _ => {
            if MODE & 1 != 0 {
                Ev::Fail(kani::any())
            } else {
                Ev::Pending
            }
        }
    }
}

fn code_of(tag: u8) -> Code {
    if tag % 2 == 0 {
        Code::Aborted
    } else {
        Code::NotFound
    }
}

/// Finite script; once exhausted the source is Pending forever (and counts how often it was polled).
struct Script<const K: usize> {
    ev: [Ev; K],
    pos: usize,
    polls: usize,
}
impl<const K: usize> Stream for Script<K> {
    type Item = Result<Msg, Status>;
    fn poll_next(mut self: Pin<&mut Self>, _cx: &mut Context<'_>) -> Poll<Option<Self::Item>> {
        self.polls += 1;
        if self.pos >= K {
            return Poll::Pending;
        }
        let e = self.ev[self.pos];
        self.pos += 1;
        match e {
            Ev::Pending => Poll::Pending,
            Ev::End => Poll::Ready(None),
            Ev::Item(m) => Poll::Ready(Some(Ok(m))),
            Ev::Fail(t) => Poll::Ready(Some(Err(Status::new(code_of(t), "")))),
        }
    }
}

// ------------------------------------------------------------------------------------------------
// reference model of the batching encoder (independent of tonic): fixed-size byte accumulator
// ------------------------------------------------------------------------------------------------
const ACC: usize = 20;
#[derive(Clone, Copy)]
struct Acc {
    b: [u8; ACC],
    n: usize,
}
impl Acc {
    fn push(&mut self, x: u8) {
        self.b[self.n] = x;
        self.n += 1;
    }
}

#[derive(Clone, Copy, PartialEq, Eq)]
enum Out {
    Pending,
    End,
    Chunk,       // yields the accumulator
    Error(Code), // yields an error
}

struct RefResult {
    out: Out,
    chunk: Acc,            // valid when out == Chunk
    left_in_buf: usize,    // bytes that stay buffered (only non-zero is impossible: always 0 after a yield)
    saved_error: Option<Code>,
    consumed: usize,       // events taken from the script
}

fn limit_of(max: Option<usize>) -> usize {
    match max {
        Some(l) => l,
        None => usize::MAX,
    }
}

fn ref_poll<const P: usize, const K: usize>(
    pre: &[u8; P],
    pending_error: Option<Code>,
    ev: &[Ev; K],
    max: Option<usize>,
    threshold: usize,
) -> RefResult {
    let mut acc = Acc { b: [0; ACC], n: 0 };
    let mut i = 0;
    while i < P {
        acc.push(pre[i]);
        i += 1;
    }
    if let Some(c) = pending_error {
        return RefResult { out: Out::Error(c), chunk: acc, left_in_buf: P, saved_error: None, consumed: 0 };
    }
    let mut k = 0;
    loop {
        let e = if k < K { ev[k] } else { Ev::Pending };
        k += 1;
        match e {
            Ev::Pending => {
                let out = if acc.n == 0 { Out::Pending } else { Out::Chunk };
                return RefResult { out, chunk: acc, left_in_buf: 0, saved_error: None, consumed: k };
            }
            Ev::End => {
                let out = if acc.n == 0 { Out::End } else { Out::Chunk };
                return RefResult { out, chunk: acc, left_in_buf: 0, saved_error: None, consumed: k };
            }
            Ev::Fail(t) => {
                if acc.n == 0 {
                    return RefResult { out: Out::Error(code_of(t)), chunk: acc, left_in_buf: 0, saved_error: None, consumed: k };
                }
                return RefResult { out: Out::Chunk, chunk: acc, left_in_buf: 0, saved_error: Some(code_of(t)), consumed: k };
            }
            Ev::Item(m) => {
                let failure = if m.enc_fail {
                    Some(Code::Internal)
                } else if m.len > limit_of(max) {
                    Some(Code::OutOfRange)
                } else {
                    None
                };
                match failure {
                    Some(c) => {
                        // C06: everything produced before the failing message is delivered ahead of the status,
                        // and no byte of the failing message is.
                        if acc.n == 0 {
                            return RefResult { out: Out::Error(c), chunk: acc, left_in_buf: 0, saved_error: None, consumed: k };
                        }
                        return RefResult { out: Out::Chunk, chunk: acc, left_in_buf: 0, saved_error: Some(c), consumed: k };
                    }
                    None => {
                        let p = ref_frame_prefix(0, m.len);
                        let mut j = 0;
                        while j < 5 {
                            acc.push(p[j]);
                            j += 1;
                        }
                        j = 0;
                        while j < m.len {
                            acc.push(m.data[j]);
                            j += 1;
                        }
                        if acc.n >= threshold {
                            return RefResult { out: Out::Chunk, chunk: acc, left_in_buf: 0, saved_error: None, consumed: k };
                        }
                    }
                }
            }
        }
    }
}

// ------------------------------------------------------------------------------------------------
// E2 / L3 / W1: one poll of the real EncodedBytes::poll_next from an arbitrary state, differential vs. the reference
// ------------------------------------------------------------------------------------------------
fn enc_step<const P: usize, const K: usize, const L: usize, const MODE: u32>() {
    let pre: [u8; P] = kani::any();
    let max: Option<usize> = if MODE & 8 != 0 { kani::any() } else { None };
    let threshold: usize = if MODE & 16 != 0 { kani::any() } else { 32 * 1024 };
    let has_err: bool = if MODE & 4 != 0 { kani::any() } else { false };
    let err_tag: u8 = kani::any();
    let mut ev = [Ev::Pending; K];
    let mut i = 0;
    while i < K {
        ev[i] = any_ev::<L, MODE>();
        i += 1;
    }

    let mut buf = if MODE & 64 != 0 { BytesMut::with_capacity(64) } else { BytesMut::new() };
    buf.put_slice(&pre);
    let mut eb = EncodedBytes {
        source: Script::<K> { ev, pos: 0, polls: 0 }.fuse(),
        encoder: CopyEnc { settings: BufferSettings::new(8, threshold) },
        compression_encoding: None,
        max_message_size: max,
        buf,
        uncompression_buf: BytesMut::new(),
        error: if has_err { Some(Status::new(code_of(err_tag), "")) } else { None },
    };
    let expect = ref_poll::<P, K>(&pre, if has_err { Some(code_of(err_tag)) } else { None }, &ev, max, threshold);

    let mut cx = noop_cx();
    let r = unsafe { Pin::new_unchecked(&mut eb) }.poll_next(&mut cx);

    match &r {
        Poll::Pending => {
            kani::cover!(true, "pending");
            assert!(expect.out == Out::Pending, "C01: Pending although frames are buffered or the source made progress");
            assert!(eb.buf.is_empty(), "C01: Pending is only allowed when nothing is buffered");
        }
        Poll::Ready(None) => {
            kani::cover!(true, "end");
            assert!(expect.out == Out::End, "C01: end of stream reported while output or an error is outstanding");
        }
        Poll::Ready(Some(Err(s))) => {
            kani::cover!(true, "error");
            match expect.out {
                Out::Error(c) => assert!(s.code() == c, "C06/C02: wrong status code"),
                _ => assert!(false, "C06: an error was reported ahead of frames that were already encoded"),
            }
        }
        Poll::Ready(Some(Ok(chunk))) => {
            kani::cover!(true, "chunk");
            assert!(expect.out == Out::Chunk, "C01: a chunk was yielded where the reference expects none");
            assert!(chunk.len() > 0, "C01: empty chunk");
            assert!(chunk.len() == expect.chunk.n, "C01/C06: chunk length differs from the reference framing");
            // compare through one plain slice (a Bytes index per byte costs a window computation each time)
            let got: &[u8] = chunk.as_ref();
            let mut j = if MODE & 32 != 0 { P + K * (5 + L) } else { 0 };
            while j < P + K * (5 + L) {
                if j < got.len() {
                    assert!(got[j] == expect.chunk.b[j], "C01/C03: chunk bytes differ from the reference framing");
                }
                j += 1;
            }
            assert!(eb.buf.is_empty(), "C01: bytes left behind after a yield");
        }
    }
    // saved error hand-off and source usage
    match (&eb.error, expect.saved_error) {
        (None, None) => {}
        (Some(s), Some(c)) => {
            kani::cover!(true, "error saved for the next poll");
            assert!(s.code() == c);
        }
        _ => assert!(false, "C06/C02: status hand-off differs from the reference"),
    }
    if has_err {
        assert!(eb.buf.len() == P, "pending error must be reported without touching the buffer");
    }
    core::mem::forget(r);
    core::mem::forget(eb);
}

#[kani::proof]
#[kani::unwind(22)]
#[kani::stub(alloc::fmt::format, fmt_stub)]
fn enc_step_p0_k1_l1_m63() {
    enc_step::<0, 1, 1, 63>()
}
#[kani::proof]
#[kani::unwind(22)]
#[kani::stub(alloc::fmt::format, fmt_stub)]
fn enc_step_p3_k1_l2_m63() {
    enc_step::<3, 1, 2, 63>()
}
#[kani::proof]
#[kani::unwind(22)]
#[kani::stub(alloc::fmt::format, fmt_stub)]
fn enc_step_p0_k2_l1_m63() {
    enc_step::<0, 2, 1, 63>()
}
#[kani::proof]
#[kani::unwind(22)]
#[kani::stub(alloc::fmt::format, fmt_stub)]
fn enc_step_p6_k2_l2_m63() {
    enc_step::<6, 2, 2, 63>()
}
#[kani::proof]
#[kani::unwind(22)]
#[kani::stub(alloc::fmt::format, fmt_stub)]
fn enc_step_p5_k2_l0_m63() {
    enc_step::<5, 2, 0, 63>()
}
#[kani::proof]
#[kani::unwind(22)]
#[kani::stub(alloc::fmt::format, fmt_stub)]
fn enc_step_p0_k1_l1_m31() {
    enc_step::<0, 1, 1, 31>()
}

// ------------------------------------------------------------------------------------------------
// E1 / W1: encode_item appends exactly [0, BE32(len), payload] behind what is already buffered (real `bytes` crate)
// ------------------------------------------------------------------------------------------------
fn enc_item<const P: usize, const L: usize>() {
    let pre: [u8; P] = kani::any();
    let data: [u8; 2] = kani::any();
    let max: Option<usize> = kani::any();
    let mut buf = BytesMut::new();
    buf.put_slice(&pre);
    let mut ubuf = BytesMut::new();
    let mut enc = CopyEnc { settings: BufferSettings::new(8, 64) };
    let r = encode_item(&mut enc, &mut buf, &mut ubuf, None, max, BufferSettings::new(8, 64),
                        Msg { len: L, data, enc_fail: false });
    match &r {
        Ok(()) => {
            kani::cover!(true, "encoded");
            assert!(L <= limit_of(max), "C06: message over the send limit was encoded");
            assert!(buf.len() == P + 5 + L, "C03: frame length is not 5 + payload length");
            let p = ref_frame_prefix(0, L);
            let mut i = 0;
            while i < P {
                assert!(buf[i] == pre[i], "C01: earlier frames were modified");
                i += 1;
            }
            i = 0;
            while i < 5 {
                assert!(buf[P + i] == p[i], "C03: prefix is not [flag 0, big-endian length]");
                i += 1;
            }
            i = 0;
            while i < L {
                assert!(buf[P + 5 + i] == data[i], "C03: payload is not the codec's serialization");
                i += 1;
            }
        }
        Err(s) => {
            kani::cover!(true, "refused");
            assert!(L > limit_of(max), "C06: message within the send limit refused");
            assert!(s.code() == Code::OutOfRange);
        }
    }
    core::mem::forget(r);
    core::mem::forget(buf);
}
#[kani::proof]
#[kani::unwind(8)]
#[kani::stub(alloc::fmt::format, fmt_stub)]
fn enc_item_p0_l0() {
    enc_item::<0, 0>()
}
#[kani::proof]
#[kani::unwind(8)]
#[kani::stub(alloc::fmt::format, fmt_stub)]
fn enc_item_p0_l2() {
    enc_item::<0, 2>()
}
#[kani::proof]
#[kani::unwind(8)]
#[kani::stub(alloc::fmt::format, fmt_stub)]
fn enc_item_p6_l1() {
    enc_item::<6, 1>()
}

// ------------------------------------------------------------------------------------------------
// E1 / L2 / W1: finish_encoding on a real slice: header bytes and limit comparison
// ------------------------------------------------------------------------------------------------
#[kani::proof]
#[kani::unwind(16)]
#[kani::stub(alloc::fmt::format, fmt_stub)]
fn enc_finish_slice() {
    let mut raw: [u8; 12] = kani::any();
    let orig = raw;
    let total: usize = kani::any();
    kani::assume(total >= 5 && total <= 12);
    let max: Option<usize> = kani::any();
    let r = finish_encoding(None, max, &mut raw[..total]);
    let len = total - 5;
    match &r {
        Ok(()) => {
            kani::cover!(true, "accepted");
            assert!(len <= limit_of(max), "C06: message over the send limit accepted");
            let p = ref_frame_prefix(0, len);
            assert!(raw[0] == p[0] && raw[1] == p[1] && raw[2] == p[2] && raw[3] == p[3] && raw[4] == p[4],
                    "C03: prefix is not [flag, BE32(len)]");
            let mut j = 5;
            while j < 12 {
                assert!(raw[j] == orig[j], "C03: payload bytes modified by finish_encoding");
                j += 1;
            }
        }
        Err(s) => {
            kani::cover!(true, "refused");
            assert!(len > limit_of(max), "C06: message within the send limit refused");
            assert!(s.code() == Code::OutOfRange, "C06: oversized outgoing message must be OUT_OF_RANGE");
        }
    }
    core::mem::forget(r);
}



// ------------------------------------------------------------------------------------------------
// L2 for EVERY length: finish_encoding only looks at buf.len() and writes buf[..5], so the slice handed to it here is fabricated
// with an arbitrary length over an 8-byte allocation (no byte beyond index 4 is ever touched: CBMC's pointer checks are on and
// would report it). Decides the exact limit comparison and the > 4 GiB arm for all usize lengths and all limits.
// ------------------------------------------------------------------------------------------------
#[cfg(all(feature = "gzip", feature = "deflate", feature = "zstd"))]
#[kani::proof]
#[kani::unwind(8)]
#[kani::stub(alloc::fmt::format, fmt_stub)]
fn enc_finish_any_len() {
    let mut raw: [u8; 8] = kani::any();
    let orig = raw;
    let total: usize = kani::any();
    kani::assume(total >= 5 && total <= isize::MAX as usize);
    let max: Option<usize> = kani::any();
    let which: u8 = kani::any();
    let enc = match which % 4 {
        0 => None,
        1 => Some(CompressionEncoding::Gzip),
        2 => Some(CompressionEncoding::Deflate),
        _ => Some(CompressionEncoding::Zstd),
    };
    let comp = enc.is_some();
    let slice: &mut [u8] = unsafe { core::mem::transmute::<(*mut u8, usize), &mut [u8]>((raw.as_mut_ptr(), total)) };
    let r = finish_encoding(enc, max, slice);
    let len = total - 5;
    match &r {
        Ok(()) => {
            kani::cover!(len > 0xFFFF, "accepted, large");
            assert!(len <= limit_of(max), "C06: message over the send limit accepted");
            assert!(len <= u32::MAX as usize, "C06: message over 4 GiB accepted (length prefix would wrap)");
            assert!(raw[0] == comp as u8, "C03: compressed-flag does not say whether an encoding is in force");
            assert!(raw[1] == (len >> 24) as u8 && raw[2] == (len >> 16) as u8 && raw[3] == (len >> 8) as u8 && raw[4] == len as u8,
                    "C03: length prefix is not BE32(len)");
            assert!(raw[5] == orig[5] && raw[6] == orig[6] && raw[7] == orig[7], "C03: payload bytes modified by finish_encoding");
        }
        Err(s) => {
            if len > limit_of(max) {
                kani::cover!(true, "over the limit");
                // over the limit AND over 4 GiB: the statement allows either code
                assert!(s.code() == Code::OutOfRange || (len > u32::MAX as usize && s.code() == Code::ResourceExhausted),
                        "C06: oversized outgoing message must be OUT_OF_RANGE");
            } else {
                kani::cover!(true, "over 4 GiB");
                assert!(len > u32::MAX as usize, "C06: message within the send limit and 4 GiB refused");
                assert!(s.code() == Code::ResourceExhausted, "C06: outgoing message over 4 GiB must be RESOURCE_EXHAUSTED");
            }
            // (whether a refused frame's prefix bytes were touched is not asserted: the caller rolls the buffer back)
        }
    }
    core::mem::forget(r);
}

// ------------------------------------------------------------------------------------------------
// S1 / W2: EncodeBody::poll_frame, one step: exactly one trailers block on a server, nothing after it, none on a client.
// Status::to_header_map is replaced by a recorder returning an empty map (the header encoding itself is C04's subject).
// ------------------------------------------------------------------------------------------------
static mut TRAILER_CODES: [i32; 2] = [-1; 2];
static mut TRAILERS_BUILT: usize = 0;

fn to_header_map_stub(this: &Status) -> Result<HeaderMap, Status> {
    unsafe {
        if TRAILERS_BUILT < 2 {
            TRAILER_CODES[TRAILERS_BUILT] = this.code() as i32;
        }
        TRAILERS_BUILT += 1;
    }
    Ok(HeaderMap::new())
}

fn body_step<const P: usize>() {
    let pre: [u8; P] = kani::any();
    let e = any_ev::<1, 3>(); // Pending / End / Item (1 byte, encoder may fail) / source error
    let server: bool = kani::any();
    let ended: bool = kani::any();
    kani::assume(!ended || server); // only a server body ever sets is_end_stream
    unsafe {
        TRAILER_CODES = [-1; 2];
        TRAILERS_BUILT = 0;
    }
    let mut buf = BytesMut::new();
    buf.put_slice(&pre);
    let mut body = EncodeBody {
        inner: EncodedBytes {
            source: Script::<1> { ev: [e], pos: 0, polls: 0 }.fuse(),
            encoder: CopyEnc { settings: BufferSettings::new(8, 1 << 20) },
            compression_encoding: None,
            max_message_size: None,
            buf,
            uncompression_buf: BytesMut::new(),
            error: None,
        },
        state: EncodeState { error: None, role: if server { Role::Server } else { Role::Client }, is_end_stream: ended },
    };
    let mut cx = noop_cx();
    let r = unsafe { Pin::new_unchecked(&mut body) }.poll_frame(&mut cx);
    let built = unsafe { TRAILERS_BUILT };
    if ended {
        kani::cover!(true, "after the trailers");
        assert!(matches!(r, Poll::Ready(None)), "C03: something follows the trailers block");
        assert!(built == 0, "C03: a second grpc-status was produced");
        assert!(body.inner.buf.len() == P, "C03: the source was polled / encoded again after the trailers");
    } else {
        match &r {
            Poll::Ready(Some(Ok(f))) if f.is_data() => {
                kani::cover!(true, "data frame");
                assert!(built == 0);
                assert!(!body.state.is_end_stream);
                let d = f.data_ref().unwrap();
                assert!(d.len() >= P && d.len() > 0, "C01: buffered frames were not delivered first");
            }
            Poll::Ready(Some(Ok(_))) => {
                kani::cover!(true, "trailers frame");
                assert!(server, "C03: a client request body produced trailers");
                assert!(built == 1, "C03: not exactly one grpc-status");
                assert!(body.state.is_end_stream, "C03: the body does not report its end after the trailers");
                assert!(P == 0, "C02: status sent ahead of buffered message frames");
                match e {
                    Ev::End => assert!(unsafe { TRAILER_CODES[0] } == 0, "C02: handler finished OK but the status is not OK"),
                    Ev::Fail(t) => assert!(unsafe { TRAILER_CODES[0] } == code_of(t) as i32, "C02: the handler's status code was changed"),
                    Ev::Item(m) => assert!(m.enc_fail && unsafe { TRAILER_CODES[0] } == Code::Internal as i32),
                    Ev::Pending => assert!(false),
                }
            }
            Poll::Ready(Some(Err(s))) => {
                kani::cover!(true, "body error");
                assert!(!server, "C02: a server turns errors into trailers, not into a body error");
                assert!(built == 0 && P == 0);
                match e {
                    Ev::Fail(t) => assert!(s.code() == code_of(t)),
                    Ev::Item(m) => assert!(m.enc_fail),
                    _ => assert!(false),
                }
            }
            Poll::Ready(None) => {
                kani::cover!(true, "client end");
                assert!(!server, "C03: a server body ended without a grpc-status");
                assert!(matches!(e, Ev::End) && P == 0 && built == 0);
            }
            Poll::Pending => {
                kani::cover!(true, "pending");
                assert!(matches!(e, Ev::Pending) && P == 0);
            }
        }
    }
    core::mem::forget(r);
    core::mem::forget(body);
}

#[kani::proof]
#[kani::unwind(8)]
#[kani::stub(alloc::fmt::format, fmt_stub)]
#[kani::stub(Status::to_header_map, to_header_map_stub)]
fn enc_body_step_p0() {
    body_step::<0>()
}
#[kani::proof]
#[kani::unwind(8)]
#[kani::stub(alloc::fmt::format, fmt_stub)]
#[kani::stub(Status::to_header_map, to_header_map_stub)]
fn enc_body_step_p4() {
    body_step::<4>()
}


// ---- W1 (features gzip,deflate,zstd): the flag byte is 1 exactly when a compression encoding is in force ---------------------
#[cfg(all(feature = "gzip", feature = "deflate", feature = "zstd"))]
#[kani::proof]
#[kani::unwind(12)]
#[kani::stub(alloc::fmt::format, fmt_stub)]
fn enc_finish_flag() {
    let mut raw: [u8; 8] = kani::any();
    let which: u8 = kani::any();
    let enc = match which % 4 {
        0 => None,
        1 => Some(CompressionEncoding::Gzip),
        2 => Some(CompressionEncoding::Deflate),
        _ => Some(CompressionEncoding::Zstd),
    };
    let r = finish_encoding(enc, None, &mut raw[..]);
    assert!(r.is_ok());
    core::mem::forget(r);
    assert!(raw[0] == if enc.is_some() { 1 } else { 0 }, "C03/C05: the compressed flag must be 1 exactly when an encoding is in force");
    assert!(raw[1] == 0 && raw[2] == 0 && raw[3] == 0 && raw[4] == 3, "C03: length prefix is not the payload length");
    kani::cover!(enc.is_none(), "identity");
    kani::cover!(which % 4 == 3, "zstd");
}


// ---- X1 (features gzip,deflate,zstd): the compressed path with an ABSTRACT codec ------------------------------------------------
// `compress` (tonic's own pub(crate) fn wrapping flate2/zstd, which cannot be executed symbolically) is replaced by an invertible
// stand-in that also records which encoding it was asked for: output = [0xC0 | id(encoding)] ++ input.  Decided: flag 1, length
// prefix = length of the compressor's output, payload = the compressor's output, the announced encoding is the one used.
#[cfg(all(feature = "gzip", feature = "deflate", feature = "zstd"))]
fn enc_id(e: CompressionEncoding) -> u8 {
    match e {
        CompressionEncoding::Gzip => 1,
        CompressionEncoding::Deflate => 2,
        CompressionEncoding::Zstd => 3,
    }
}
#[cfg(all(feature = "gzip", feature = "deflate", feature = "zstd"))]
fn compress_abstract(
    settings: super::super::compression::CompressionSettings,
    input: &mut BytesMut,
    out: &mut BytesMut,
    len: usize,
) -> Result<(), std::io::Error> {
    out.put_u8(0xC0 | enc_id(settings.encoding));
    out.put_slice(&input[..len]);
    bytes::Buf::advance(input, len);
    Ok(())
}

#[cfg(all(feature = "gzip", feature = "deflate", feature = "zstd"))]
#[kani::proof]
#[kani::unwind(8)]
#[kani::stub(alloc::fmt::format, fmt_stub)]
#[kani::stub(crate::codec::compression::compress, compress_abstract)]
fn enc_item_compressed() {
    let pre: [u8; 2] = kani::any();
    let data: [u8; 2] = kani::any();
    let which: u8 = kani::any();
    let enc = match which % 3 {
        0 => CompressionEncoding::Gzip,
        1 => CompressionEncoding::Deflate,
        _ => CompressionEncoding::Zstd,
    };
    let max: Option<usize> = kani::any();
    let mut buf = BytesMut::new();
    buf.put_slice(&pre);
    let mut ubuf = BytesMut::new();
    let mut e = CopyEnc { settings: BufferSettings::new(8, 64) };
    let r = encode_item(&mut e, &mut buf, &mut ubuf, Some(enc), max, BufferSettings::new(8, 64), Msg { len: 2, data, enc_fail: false });
    match &r {
        Ok(()) => {
            kani::cover!(true, "compressed frame");
            assert!(3 <= limit_of(max), "C06: the send limit applies to the compressed length");
            assert!(buf.len() == 2 + 5 + 3);
            assert!(buf[0] == pre[0] && buf[1] == pre[1], "C01: earlier bytes modified");
            assert!(buf[2] == 1, "C03: a compressed message must carry flag 1");
            assert!(buf[3] == 0 && buf[4] == 0 && buf[5] == 0 && buf[6] == 3, "C03: length prefix must be the compressed length");
            assert!(buf[7] == (0xC0 | enc_id(enc)), "C05: the compressor was not asked for the announced encoding");
            assert!(buf[8] == data[0] && buf[9] == data[1], "C01: the compressor did not receive exactly the serialized message");
        }
        Err(s) => {
            kani::cover!(true, "over the limit");
            assert!(3 > limit_of(max));
            assert!(s.code() == Code::OutOfRange);
        }
    }
    core::mem::forget(r);
    core::mem::forget(buf);
    core::mem::forget(ubuf);
}
