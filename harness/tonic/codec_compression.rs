// Kani harnesses injected as a child module of tonic/src/codec/compression.rs (features gzip,deflate,zstd: enum variants only;
// no compressor code is reachable from these harnesses).
// Obligations: C05 N1, N2, N3.
#![allow(dead_code, unused_imports, clippy::all)]
use super::*;
use crate::Code;
use http::{HeaderMap, HeaderName, HeaderValue};

mod common {
    include!("../common.rs");
}
use common::*;

fn enc_of(k: u8) -> CompressionEncoding {
    match k % 3 {
        0 => CompressionEncoding::Gzip,
        1 => CompressionEncoding::Deflate,
        _ => CompressionEncoding::Zstd,
    }
}
fn idx_of(e: CompressionEncoding) -> usize {
    match e {
        CompressionEncoding::Gzip => 0,
        CompressionEncoding::Deflate => 1,
        CompressionEncoding::Zstd => 2,
    }
}
fn name_of(i: usize) -> &'static [u8] {
    match i {
        0 => b"gzip",
        1 => b"deflate",
        _ => b"zstd",
    }
}

/// reference model of an ordered set of enabled encodings
#[derive(Clone, Copy)]
struct RefSet {
    order: [usize; 3],
    n: usize,
}
impl RefSet {
    fn has(&self, i: usize) -> bool {
        let mut k = 0;
        while k < self.n {
            if self.order[k] == i {
                return true;
            }
            k += 1;
        }
        false
    }
    fn add(&mut self, i: usize) {
        if !self.has(i) {
            self.order[self.n] = i;
            self.n += 1;
        }
    }
}

/// any state reachable through the public API: up to 4 `enable` calls with arbitrary arguments
fn any_enabled() -> (EnabledCompressionEncodings, RefSet) {
    let mut e = EnabledCompressionEncodings::default();
    let mut r = RefSet { order: [9; 3], n: 0 };
    let calls: u8 = kani::any();
    kani::assume(calls <= 4);
    let mut c = 0;
    while c < 4 {
        if c < calls {
            let k: u8 = kani::any();
            kani::assume(k < 3);
            e.enable(enc_of(k));
            r.add(k as usize);
        }
        c += 1;
    }
    (e, r)
}

/// expected grpc-accept-encoding text: enabled names in order, then "identity"
fn ref_accept_value(r: &RefSet, out: &mut [u8; 32]) -> usize {
    let mut n = 0;
    let mut k = 0;
    while k < r.n {
        let nm = name_of(r.order[k]);
        let mut j = 0;
        while j < nm.len() {
            out[n] = nm[j];
            n += 1;
            j += 1;
        }
        out[n] = b',';
        n += 1;
        k += 1;
    }
    let id = b"identity";
    let mut j = 0;
    while j < id.len() {
        out[n] = id[j];
        n += 1;
        j += 1;
    }
    n
}

// ---- N3 ------------------------------------------------------------------------------------------
#[kani::proof]
#[kani::unwind(34)]
#[kani::stub(alloc::fmt::format, fmt_stub)]
fn cmp_enabled_set() {
    let (e, r) = any_enabled();
    let mut i = 0;
    while i < 3 {
        assert!(e.is_enabled(enc_of(i as u8)) == r.has(i), "C05: is_enabled disagrees with the enable() history");
        i += 1;
    }
    assert!(e.is_empty() == (r.n == 0));
    let hv = e.into_accept_encoding_header_value();
    match &hv {
        None => assert!(r.n == 0, "C05: enabled encodings are not advertised"),
        Some(v) => {
            assert!(r.n > 0);
            let mut want = [0u8; 32];
            let n = ref_accept_value(&r, &mut want);
            let b = v.as_bytes();
            assert!(b.len() == n, "C05: grpc-accept-encoding does not list precisely the enabled encodings");
            let mut j = 0;
            while j < 32 {
                if j < n {
                    assert!(b[j] == want[j], "C05: grpc-accept-encoding does not list precisely the enabled encodings");
                }
                j += 1;
            }
        }
    }
    kani::cover!(r.n == 3, "all three enabled");
    kani::cover!(r.n == 1, "one enabled");
    // pop removes the most recently enabled one
    let mut e2 = e;
    let p = e2.pop();
    match p {
        None => assert!(r.n == 0),
        Some(x) => {
            assert!(r.n > 0 && idx_of(x) == r.order[r.n - 1], "pop must remove the last enabled encoding");
            assert!(!e2.is_enabled(x));
        }
    }
    core::mem::forget(hv);
}

// ---- N2: from_encoding_header ----------------------------------------------------------------------
const ENC_HDR: HeaderName = HeaderName::from_static("grpc-encoding");

fn enc_header_case<const N: usize>(value: [u8; N]) {
    let (e, r) = any_enabled();
    let mut map = HeaderMap::new();
    map.insert(ENC_HDR, HeaderValue::from_bytes(&value[..]).unwrap());
    let got = CompressionEncoding::from_encoding_header(&map, e);
    // reference
    let mut named: Option<usize> = None;
    let mut i = 0;
    while i < 3 {
        let nm = name_of(i);
        if nm.len() == N {
            let mut eq = true;
            let mut j = 0;
            while j < N {
                if nm[j] != value[j] {
                    eq = false;
                }
                j += 1;
            }
            if eq {
                named = Some(i);
            }
        }
        i += 1;
    }
    let is_identity = N == 8 && {
        let id = b"identity";
        let mut eq = true;
        let mut j = 0;
        while j < N {
            if id[j] != value[j] {
                eq = false;
            }
            j += 1;
        }
        eq
    };
    match &got {
        Ok(Some(x)) => {
            kani::cover!(true, "accepted encoding");
            assert!(named == Some(idx_of(*x)), "C05: grpc-encoding resolved to a different encoding than it names");
            assert!(r.has(idx_of(*x)), "C05: an encoding that is not enabled for receiving was accepted");
        }
        Ok(None) => {
            kani::cover!(true, "identity");
            assert!(is_identity, "C05: a non-identity grpc-encoding was treated as identity");
        }
        Err(s) => {
            kani::cover!(true, "refused");
            assert!(!is_identity);
            match named {
                Some(i) => assert!(!r.has(i), "C05: an enabled encoding was refused"),
                None => {}
            }
            assert!(s.code() == Code::Unimplemented, "C05: unsupported grpc-encoding must be UNIMPLEMENTED");
        }
    }
    core::mem::forget(got);
    core::mem::forget(map);
}

#[kani::proof]
#[kani::unwind(14)]
#[kani::stub(alloc::fmt::format, fmt_stub)]
#[kani::stub(std::hash::RandomState::new, random_state_stub)]
fn cmp_enc_hdr_gzip() {
    enc_header_case::<4>(*b"gzip")
}
#[kani::proof]
#[kani::unwind(14)]
#[kani::stub(alloc::fmt::format, fmt_stub)]
#[kani::stub(std::hash::RandomState::new, random_state_stub)]
fn cmp_enc_hdr_deflate() {
    enc_header_case::<7>(*b"deflate")
}
#[kani::proof]
#[kani::unwind(14)]
#[kani::stub(alloc::fmt::format, fmt_stub)]
#[kani::stub(std::hash::RandomState::new, random_state_stub)]
fn cmp_enc_hdr_identity() {
    enc_header_case::<8>(*b"identity")
}
#[kani::proof]
#[kani::unwind(14)]
#[kani::stub(alloc::fmt::format, fmt_stub)]
#[kani::stub(std::hash::RandomState::new, random_state_stub)]
fn cmp_enc_hdr_sym4() {
    let v: [u8; 4] = kani::any();
    let mut i = 0;
    while i < 4 {
        kani::assume(v[i] == b'\t' || (v[i] >= 0x20 && v[i] != 0x7f));
        i += 1;
    }
    enc_header_case::<4>(v)
}

// ---- N1: from_accept_encoding_header ---------------------------------------------------------------
const ACC_HDR: HeaderName = HeaderName::from_static("grpc-accept-encoding");

/// reference: first comma-separated, whitespace-trimmed token that names an *enabled* encoding
fn ref_pick<const N: usize>(v: &[u8; N], r: &RefSet) -> Option<usize> {
    let mut i = 0;
    while i < N {
        if v[i] >= 0x80 {
            return None; // not visible ASCII: the header cannot be read as text
        }
        i += 1;
    }
    let ws = |c: u8| c == b' ' || c == b'\t';
    let mut start = 0;
    let mut pos = 0;
    while pos <= N {
        if pos == N || v[pos] == b',' {
            // token = v[start..pos], trimmed
            let mut a = start;
            let mut b = pos;
            while a < b && ws(v[a]) {
                a += 1;
            }
            while b > a && ws(v[b - 1]) {
                b -= 1;
            }
            let mut k = 0;
            while k < 3 {
                let nm = name_of(k);
                if nm.len() == b - a {
                    let mut eq = true;
                    let mut j = 0;
                    while j < nm.len() {
                        if v[a + j] != nm[j] {
                            eq = false;
                        }
                        j += 1;
                    }
                    if eq && r.has(k) {
                        return Some(k);
                    }
                }
                k += 1;
            }
            start = pos + 1;
        }
        pos += 1;
    }
    None
}

fn accept_case<const N: usize>(value: [u8; N]) {
    let (e, r) = any_enabled();
    let mut map = HeaderMap::new();
    map.insert(ACC_HDR, HeaderValue::from_bytes(&value[..]).unwrap());
    let got = CompressionEncoding::from_accept_encoding_header(&map, e);
    let want = ref_pick::<N>(&value, &r);
    match got {
        Some(x) => {
            kani::cover!(true, "encoding chosen");
            assert!(r.has(idx_of(x)), "C05: response encoding chosen that the server was not configured to send");
            assert!(want == Some(idx_of(x)), "C05: chosen encoding is not the first offered one that is enabled");
        }
        None => {
            kani::cover!(true, "identity");
            assert!(want.is_none(), "C05: an offered and enabled encoding was not used");
        }
    }
    core::mem::forget(map);
}

#[kani::proof]
#[kani::unwind(24)]
#[kani::stub(alloc::fmt::format, fmt_stub)]
#[kani::stub(std::hash::RandomState::new, random_state_stub)]
fn cmp_accept_zstd_gzip() {
    accept_case::<10>(*b"zstd, gzip")
}
#[kani::proof]
#[kani::unwind(24)]
#[kani::stub(alloc::fmt::format, fmt_stub)]
#[kani::stub(std::hash::RandomState::new, random_state_stub)]
fn cmp_accept_deflate_id() {
    accept_case::<16>(*b"deflate,identity")
}
#[kani::proof]
#[kani::unwind(24)]
#[kani::stub(alloc::fmt::format, fmt_stub)]
#[kani::stub(std::hash::RandomState::new, random_state_stub)]
fn cmp_accept_sym4() {
    let v: [u8; 4] = kani::any();
    let mut i = 0;
    while i < 4 {
        kani::assume(v[i] == b'\t' || (v[i] >= 0x20 && v[i] != 0x7f));
        i += 1;
    }
    accept_case::<4>(v)
}
#[kani::proof]
#[kani::unwind(24)]
#[kani::stub(alloc::fmt::format, fmt_stub)]
#[kani::stub(std::hash::RandomState::new, random_state_stub)]
fn cmp_accept_absent() {
    let (e, _r) = any_enabled();
    let map = HeaderMap::new();
    assert!(CompressionEncoding::from_accept_encoding_header(&map, e).is_none(), "C05: compression chosen although none was offered");
    kani::cover!(true, "absent");
    core::mem::forget(map);
}

// ---- N3 (set semantics only, no header text): enable / is_enabled / is_empty / pop --------------------------------------
#[kani::proof]
#[kani::unwind(6)]
#[kani::stub(alloc::fmt::format, fmt_stub)]
fn cmp_enabled_set_core() {
    let (e, r) = any_enabled();
    let mut i = 0;
    while i < 3 {
        assert!(e.is_enabled(enc_of(i as u8)) == r.has(i), "C05: is_enabled disagrees with the enable() history");
        i += 1;
    }
    assert!(e.is_empty() == (r.n == 0), "C05: is_empty disagrees with the enable() history");
    let mut e2 = e;
    let p = e2.pop();
    match p {
        None => assert!(r.n == 0),
        Some(x) => {
            assert!(r.n > 0 && idx_of(x) == r.order[r.n - 1], "C05: pop must remove the most recently enabled encoding");
            assert!(!e2.is_enabled(x));
            // the others stay enabled
            let mut k = 0;
            while k < 3 {
                if k != idx_of(x) {
                    assert!(e2.is_enabled(enc_of(k as u8)) == r.has(k));
                }
                k += 1;
            }
        }
    }
    kani::cover!(r.n == 3, "all three enabled");
    kani::cover!(r.n == 0, "none enabled");
}
