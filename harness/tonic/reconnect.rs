// Kani harnesses injected as a child module of tonic/src/transport/channel/service/reconnect.rs (features channel,server).
// Obligation: C14 (narrowed to the Reconnect state machine): every fault script of K events, from every state.
#![allow(dead_code, unused_imports, clippy::all, static_mut_refs)]
use super::*;

mod common {
    include!("../common.rs");
}
use common::*;

// ---- environment: a scripted connector and connection -------------------------------------------------
// One global finite script of events; each stub consumes the next event and interprets it for its own role.
// When the script is exhausted every stub answers Pending (DESIGN P16: an unbounded nondeterministic stub lets
// a single poll_ready spin forever, which is not a behaviour of any real connector).
const MAXK: usize = 12;
static mut SCRIPT: [u8; MAXK] = [0; MAXK];
static mut LEN: usize = 0;
static mut POS: usize = 0;
static mut CONNECT_ATTEMPTS: u32 = 0; // make_service invocations
static mut CONN_CALLS: u32 = 0; // requests that reached an established connection
static mut LAST_FAILED_ATTEMPT: u32 = 0;
static mut CONN_READY_NOW: bool = false; // the connection currently held last answered Ready(Ok)
static mut FIRST_DONE: u8 = 0; // first connect completion in this run: 1 = ok, 2 = failed

fn next_event() -> Option<u8> {
    unsafe {
        if POS < LEN {
            let e = SCRIPT[POS];
            POS += 1;
            Some(e)
        } else {
            None
        }
    }
}

#[derive(Debug)]
struct ConnectErr(u32); // carries the number of the attempt that failed
impl fmt::Display for ConnectErr {
    fn fmt(&self, _f: &mut fmt::Formatter<'_>) -> fmt::Result {
        Ok(())
    }
}
impl std::error::Error for ConnectErr {}

#[derive(Debug)]
struct DeadConn;
impl fmt::Display for DeadConn {
    fn fmt(&self, _f: &mut fmt::Formatter<'_>) -> fmt::Result {
        Ok(())
    }
}
impl std::error::Error for DeadConn {}

struct Conn;
impl Service<u8> for Conn {
    type Response = u8;
    type Error = DeadConn;
    type Future = std::future::Ready<Result<u8, DeadConn>>;
    fn poll_ready(&mut self, _cx: &mut Context<'_>) -> Poll<Result<(), DeadConn>> {
        let r = match next_event() {
            None => Poll::Pending,
            Some(e) => match e % 3 {
                0 => Poll::Ready(Ok(())),
                1 => Poll::Pending,
                _ => Poll::Ready(Err(DeadConn)), // the peer dropped the established connection
            },
        };
        unsafe {
            CONN_READY_NOW = matches!(r, Poll::Ready(Ok(())));
        }
        r
    }
    fn call(&mut self, req: u8) -> Self::Future {
        unsafe {
            CONN_CALLS += 1;
        }
        std::future::ready(Ok(req))
    }
}

struct ConnFut {
    attempt: u32,
    done: bool,
}
impl Future for ConnFut {
    type Output = Result<Conn, ConnectErr>;
    fn poll(mut self: Pin<&mut Self>, _cx: &mut Context<'_>) -> Poll<Self::Output> {
        assert!(!self.done, "C14: a connect future was polled again after it completed");
        match next_event() {
            None => Poll::Pending,
            Some(e) => match e % 3 {
                0 => {
                    self.done = true;
                    unsafe {
                        if FIRST_DONE == 0 {
                            FIRST_DONE = 1;
                        }
                    }
                    Poll::Ready(Ok(Conn))
                }
                1 => Poll::Pending,
                _ => {
                    self.done = true;
                    unsafe {
                        LAST_FAILED_ATTEMPT = self.attempt;
                        if FIRST_DONE == 0 {
                            FIRST_DONE = 2;
                        }
                    }
                    Poll::Ready(Err(ConnectErr(self.attempt)))
                }
            },
        }
    }
}

struct Mk;
impl Service<()> for Mk {
    type Response = Conn;
    type Error = ConnectErr;
    type Future = ConnFut;
    fn poll_ready(&mut self, _cx: &mut Context<'_>) -> Poll<Result<(), ConnectErr>> {
        match next_event() {
            None => Poll::Pending,
            Some(e) => {
                if e % 2 == 0 {
                    Poll::Ready(Ok(()))
                } else {
                    Poll::Pending
                }
            }
        }
    }
    fn call(&mut self, _t: ()) -> ConnFut {
        unsafe {
            CONNECT_ATTEMPTS += 1;
            ConnFut { attempt: CONNECT_ATTEMPTS, done: false }
        }
    }
}

#[derive(Clone, Copy, PartialEq, Eq)]
enum St {
    Idle,
    Connecting,
    Connected,
}
fn st_of(r: &Reconnect<Mk, ()>) -> St {
    match r.state {
        State::Idle => St::Idle,
        State::Connecting(_) => St::Connecting,
        State::Connected(_) => St::Connected,
    }
}

const PENDING_ERR_ID: u32 = 1000;

fn step<const K: usize>() {
    // ---- arbitrary script, arbitrary pre-state -----------------------------------------------------------
    let script: [u8; K] = kani::any();
    unsafe {
        let mut i = 0;
        while i < K {
            SCRIPT[i] = script[i];
            i += 1;
        }
        LEN = K;
        POS = 0;
        CONNECT_ATTEMPTS = 0;
        CONN_CALLS = 0;
        LAST_FAILED_ATTEMPT = 0;
        CONN_READY_NOW = false;
        FIRST_DONE = 0;
    }
    let is_lazy: bool = kani::any();
    let mut rc: Reconnect<Mk, ()> = Reconnect::new(Mk, (), is_lazy);
    let s0: u8 = kani::any();
    let pre_state = match s0 % 3 {
        0 => St::Idle,
        1 => {
            rc.state = State::Connecting(ConnFut { attempt: 0, done: false });
            St::Connecting
        }
        _ => {
            rc.state = State::Connected(Conn);
            rc.has_been_connected = true; // invariant: Connected is only entered through poll_ready, which sets it
            St::Connected
        }
    };
    if pre_state != St::Connected {
        rc.has_been_connected = kani::any();
    }
    let had_err: bool = kani::any();
    if had_err {
        // invariant of the implementation: an error is only ever saved together with state Idle
        kani::assume(pre_state == St::Idle);
        kani::assume(rc.has_been_connected || is_lazy);
        rc.error = Some(Box::new(ConnectErr(PENDING_ERR_ID)));
    }
    let pre_connected_before = rc.has_been_connected;

    // ---- one poll_ready ----------------------------------------------------------------------------------
    let mut cx = noop_cx();
    let r = <Reconnect<Mk, ()> as Service<u8>>::poll_ready(&mut rc, &mut cx);
    let attempts = unsafe { CONNECT_ATTEMPTS };
    match &r {
        Poll::Ready(Ok(())) => {
            kani::cover!(true, "ready");
            // (1) the tower contract makes call() legal now: it must not hit the 'service not ready' panic
            assert!(rc.error.is_some() || st_of(&rc) == St::Connected, "C14: ready reported but a call would panic");
            if rc.error.is_none() {
                assert!(unsafe { CONN_READY_NOW }, "C14: ready reported although the connection did not report ready");
            }
        }
        Poll::Ready(Err(e)) => {
            kani::cover!(true, "initial failure reported");
            // (2) only an eager channel that was never connected reports a connect failure from poll_ready
            assert!(!is_lazy && !pre_connected_before, "C14: poll_ready failed on a lazy or previously connected channel");
            assert!(e.downcast_ref::<ConnectErr>().is_some());
        }
        Poll::Pending => {
            kani::cover!(true, "pending");
            assert!(rc.error.is_none() || had_err);
        }
    }
    if had_err {
        // a saved error short-circuits: nothing is polled, no new attempt is started before a call took it
        assert!(matches!(r, Poll::Ready(Ok(()))));
        assert!(attempts == 0 && unsafe { POS } == 0, "C14: new connection attempt while an error is still undelivered");
    }
    if !is_lazy && !pre_connected_before && !had_err && pre_state != St::Connected && unsafe { FIRST_DONE } == 2 {
        // (2') eager + never connected: the first connect failure comes straight out of poll_ready, it is not deferred
        kani::cover!(true, "eager initial failure");
        assert!(matches!(r, Poll::Ready(Err(_))), "C14: eager channel did not report its initial connect failure immediately");
    }
    if rc.error.is_some() && !had_err {
        kani::cover!(true, "failure saved for the next call");
        // a failed attempt is parked for exactly one call and the channel is ready to retry afterwards
        assert!(st_of(&rc) == St::Idle);
        assert!(matches!(r, Poll::Ready(Ok(()))), "C14: a saved connect error must make the service ready so a call can take it");
    }

    // ---- one call, if legal ------------------------------------------------------------------------------
    if let Poll::Ready(Ok(())) = r {
        let err_before = rc.error.is_some();
        let calls_before = unsafe { CONN_CALLS };
        let fut = <Reconnect<Mk, ()> as Service<u8>>::call(&mut rc, 42);
        let mut fut = fut;
        let out = unsafe { Pin::new_unchecked(&mut fut) }.poll(&mut cx);
        if err_before {
            kani::cover!(true, "call receives the connect error");
            assert!(rc.error.is_none(), "C14: connect error kept after being handed to a call (would be replayed)");
            assert!(unsafe { CONN_CALLS } == calls_before, "C14: request sent although the attempt failed");
            match &out {
                Poll::Ready(Err(e)) => {
                    let id = e.downcast_ref::<ConnectErr>().map(|c| c.0);
                    if had_err {
                        assert!(id == Some(PENDING_ERR_ID), "C14: call received a different error than the one saved");
                    } else {
                        assert!(id == Some(unsafe { LAST_FAILED_ATTEMPT }), "C14: call received the error of a different attempt");
                    }
                }
                _ => assert!(false, "C14: the call that triggered a failed attempt must fail"),
            }
            assert!(st_of(&rc) == St::Idle, "C14: after a failed attempt the next poll_ready must start a fresh one");
        } else {
            kani::cover!(true, "call reaches the connection");
            assert!(unsafe { CONN_CALLS } == calls_before + 1, "C14: ready channel did not forward the request");
            assert!(matches!(out, Poll::Ready(Ok(42))));
        }
        core::mem::forget(out);
        core::mem::forget(fut);
    }
    // recovery: Idle, nothing saved, connector ready, connect succeeds, connection ready  ==> the call goes through
    if K >= 3 && pre_state == St::Idle && !had_err && script[0] % 2 == 0 && script[1] % 3 == 0 && script[2] % 3 == 0 {
        kani::cover!(true, "recovery script");
        assert!(matches!(r, Poll::Ready(Ok(()))) && unsafe { CONN_CALLS } == 1,
                "C14: endpoint reachable again but the next call did not succeed");
        assert!(attempts == 1);
    }
    // (5) part of the inductive invariant behind (2): "has been connected" never reverts. If one step (poll_ready or the call that
    // takes a parked error) could reset it, a LATER connect failure of an eager channel would come out of poll_ready as Err - which
    // the tower Buffer worker treats as fatal: the channel would never recover although the endpoint is reachable again.
    assert!(!pre_connected_before || rc.has_been_connected,
            "C14: a channel that had been connected is treated as never connected again (a later connect failure would kill it)");
    core::mem::forget(r);
    core::mem::forget(rc);
}

#[kani::proof]
#[kani::unwind(8)]
#[kani::stub(alloc::fmt::format, fmt_stub)]
fn rc_step_k2() {
    step::<2>()
}
#[kani::proof]
#[kani::unwind(8)]
#[kani::stub(alloc::fmt::format, fmt_stub)]
fn rc_step_k3() {
    step::<3>()
}
#[kani::proof]
#[kani::unwind(8)]
#[kani::stub(alloc::fmt::format, fmt_stub)]
fn rc_step_k4() {
    step::<4>()
}
#[kani::proof]
#[kani::unwind(8)]
#[kani::stub(alloc::fmt::format, fmt_stub)]
fn rc_step_k5() {
    step::<5>()
}
#[kani::proof]
#[kani::unwind(8)]
#[kani::stub(alloc::fmt::format, fmt_stub)]
fn rc_step_k6() {
    step::<6>()
}
#[kani::proof]
#[kani::unwind(10)]
#[kani::stub(alloc::fmt::format, fmt_stub)]
fn rc_step_k8() {
    step::<8>()
}
#[kani::proof]
#[kani::unwind(14)]
#[kani::stub(alloc::fmt::format, fmt_stub)]
fn rc_step_k12() {
    step::<12>()
}

// ---- deliberately false twin (thorough tier) ---------------------------------------------------------------------------
#[kani::proof]
#[kani::unwind(8)]
#[kani::stub(alloc::fmt::format, fmt_stub)]
fn twin_rc_false() {
    step::<2>();
    assert!(false, "false twin: this assertion must be reported as violated");
}
