// Kani harnesses injected as a child module of tonic/src/transport/service/grpc_timeout.rs (features channel,server).
// Obligations: C09 G2 (parse), G4 (selection of the shorter deadline).
#![allow(dead_code, unused_imports, clippy::all, static_mut_refs)]
use super::*;
use http::HeaderName;

mod common {
    include!("../common.rs");
}
use common::*;

const TIMEOUT_HDR: HeaderName = HeaderName::from_static("grpc-timeout");

fn legal_value_byte(b: u8) -> bool {
    b == b'\t' || (b >= 0x20 && b != 0x7f)
}

/// Reference grammar (gRPC PROTOCOL-HTTP2): TimeoutValue = 1..8 ASCII digits, TimeoutUnit in "HMSmun".
/// Returns Some(duration) for a well-formed value, None for anything else.
fn ref_parse<const N: usize>(v: &[u8; N]) -> Option<Duration> {
    if N < 2 || N > 9 {
        return None;
    }
    let mut val: u64 = 0;
    let mut i = 0;
    while i < N - 1 {
        let c = v[i];
        if c < b'0' || c > b'9' {
            return None;
        }
        val = val * 10 + (c - b'0') as u64;
        i += 1;
    }
    match v[N - 1] {
        b'H' => Some(Duration::from_secs(val * 3600)),
        b'M' => Some(Duration::from_secs(val * 60)),
        b'S' => Some(Duration::from_secs(val)),
        b'm' => Some(Duration::from_millis(val)),
        b'u' => Some(Duration::from_micros(val)),
        b'n' => Some(Duration::from_nanos(val)),
        _ => None,
    }
}

fn parse_case<const N: usize>(v: [u8; N]) {
    let mut i = 0;
    while i < N {
        kani::assume(legal_value_byte(v[i]));
        i += 1;
    }
    let mut map = HeaderMap::new();
    map.insert(TIMEOUT_HDR, HeaderValue::from_bytes(&v[..]).unwrap());
    let got = try_parse_grpc_timeout(&map);
    let want = ref_parse::<N>(&v);
    match (&got, want) {
        (Ok(Some(d)), Some(w)) => {
            kani::cover!(true, "well-formed value parsed");
            assert!(d.as_secs() == w.as_secs() && d.subsec_nanos() == w.subsec_nanos(),
                    "C09: a spec-conformant grpc-timeout was parsed to a different duration");
        }
        (Err(_), None) => {
            kani::cover!(true, "malformed value ignored");
        }
        (Ok(Some(_)), None) => assert!(false, "C09: a malformed grpc-timeout value was honoured"),
        (Err(_), Some(_)) => assert!(false, "C09: a spec-conformant grpc-timeout value was ignored"),
        (Ok(None), _) => assert!(false, "C09: header present but reported absent"),
    }
    core::mem::forget(map);
}

#[kani::proof]
#[kani::unwind(14)]
#[kani::stub(alloc::fmt::format, fmt_stub)]
#[kani::stub(std::hash::RandomState::new, random_state_stub)]
fn gt_parse_1() {
    parse_case::<1>(kani::any())
}
#[kani::proof]
#[kani::unwind(14)]
#[kani::stub(alloc::fmt::format, fmt_stub)]
#[kani::stub(std::hash::RandomState::new, random_state_stub)]
fn gt_parse_2() {
    parse_case::<2>(kani::any())
}
#[kani::proof]
#[kani::unwind(14)]
#[kani::stub(alloc::fmt::format, fmt_stub)]
#[kani::stub(std::hash::RandomState::new, random_state_stub)]
fn gt_parse_3() {
    parse_case::<3>(kani::any())
}
#[kani::proof]
#[kani::unwind(14)]
#[kani::stub(alloc::fmt::format, fmt_stub)]
#[kani::stub(std::hash::RandomState::new, random_state_stub)]
fn gt_parse_4() {
    parse_case::<4>(kani::any())
}
#[kani::proof]
#[kani::unwind(14)]
#[kani::stub(alloc::fmt::format, fmt_stub)]
#[kani::stub(std::hash::RandomState::new, random_state_stub)]
fn gt_parse_5() {
    parse_case::<5>(kani::any())
}
#[kani::proof]
#[kani::unwind(14)]
#[kani::stub(alloc::fmt::format, fmt_stub)]
#[kani::stub(std::hash::RandomState::new, random_state_stub)]
fn gt_parse_6() {
    parse_case::<6>(kani::any())
}
/// 8-vs-9 digit boundary: N-3 leading '9' digits fixed, the last three bytes arbitrary
fn parse_tail3<const N: usize>() {
    let mut v = [b'9'; N];
    let t: [u8; 3] = kani::any();
    v[N - 3] = t[0];
    v[N - 2] = t[1];
    v[N - 1] = t[2];
    parse_case::<N>(v)
}
#[kani::proof]
#[kani::unwind(14)]
#[kani::stub(alloc::fmt::format, fmt_stub)]
#[kani::stub(std::hash::RandomState::new, random_state_stub)]
fn gt_parse_tail_9() {
    parse_tail3::<9>()
}
#[kani::proof]
#[kani::unwind(14)]
#[kani::stub(alloc::fmt::format, fmt_stub)]
#[kani::stub(std::hash::RandomState::new, random_state_stub)]
fn gt_parse_tail_10() {
    parse_tail3::<10>()
}

#[kani::proof]
#[kani::unwind(14)]
#[kani::stub(alloc::fmt::format, fmt_stub)]
#[kani::stub(std::hash::RandomState::new, random_state_stub)]
fn gt_parse_absent() {
    let map = HeaderMap::new();
    assert!(matches!(try_parse_grpc_timeout(&map), Ok(None)));
    kani::cover!(true, "absent");
    core::mem::forget(map);
}

// ---- G4: which duration is armed -------------------------------------------------------------------
static mut EXPECT_SLEEP: Option<Duration> = None;
static mut SLEEP_CALLS: u32 = 0;

fn sleep_stub(d: Duration) -> Sleep {
    unsafe {
        SLEEP_CALLS += 1;
        match EXPECT_SLEEP {
            Some(w) => assert!(d.as_secs() == w.as_secs() && d.subsec_nanos() == w.subsec_nanos(),
                               "C09: the timer is not armed with the shorter of the caller's and the configured timeout"),
            None => assert!(false, "C09: a timer was armed although neither side set a timeout"),
        }
    }
    kani::cover!(true, "timer armed");
    // a real Sleep needs a tokio runtime (DESIGN P2): the path ends here, after the assertion
    kani::assume(false);
    loop {}
}

struct Inner;
impl Service<Request<()>> for Inner {
    type Response = ();
    type Error = crate::BoxError;
    type Future = std::future::Ready<Result<(), crate::BoxError>>;
    fn poll_ready(&mut self, _: &mut Context<'_>) -> Poll<Result<(), Self::Error>> {
        Poll::Ready(Ok(()))
    }
    fn call(&mut self, req: Request<()>) -> Self::Future {
        core::mem::forget(req); // drop glue of http::Request (Uri/Bytes vtables) is not the subject
        std::future::ready(Ok(()))
    }
}

#[kani::proof]
#[kani::unwind(14)]
#[kani::stub(alloc::fmt::format, fmt_stub)]
#[kani::stub(std::hash::RandomState::new, random_state_stub)]
#[kani::stub(tokio::time::sleep::sleep, sleep_stub)]
fn gt_select_min() {
    // caller timeout: absent, or "<d>S" / "<d>m" with one arbitrary digit; configured timeout: any Option<Duration>
    let has_hdr: bool = kani::any();
    let digit: u8 = kani::any();
    kani::assume(digit <= 9);
    let millis: bool = kani::any();
    // configured timeout: none, or any whole number of milliseconds below 65.536 s (covers both orders against the
    // caller values 0..9 s / 0..9 ms); Duration::from_millis avoids the normalising division of Duration::new
    let server: Option<Duration> = if kani::any() {
        let ms: u16 = kani::any();
        Some(Duration::from_millis(ms as u64))
    } else {
        None
    };
    let mut req = Request::new(());
    let malformed: bool = kani::any(); // a malformed caller value is ignored: the configured timeout still applies
    let client = if has_hdr {
        let unit = if malformed { b'x' } else if millis { b'm' } else { b'S' };
        let v = [b'0' + digit, unit];
        req.headers_mut().insert(TIMEOUT_HDR, HeaderValue::from_bytes(&v[..]).unwrap());
        if malformed {
            None
        } else {
            Some(if millis { Duration::from_millis(digit as u64) } else { Duration::from_secs(digit as u64) })
        }
    } else {
        None
    };
    let want = match (client, server) {
        (None, None) => None,
        (Some(c), None) => Some(c),
        (None, Some(s)) => Some(s),
        (Some(c), Some(s)) => Some(if c <= s { c } else { s }),
    };
    unsafe {
        EXPECT_SLEEP = want;
    }
    let mut svc = GrpcTimeout::new(Inner, server);
    let fut = svc.call(req);
    // only reachable when no timer was armed
    assert!(want.is_none(), "C09: no timer armed although a timeout applies");
    assert!(fut.sleep.is_none());
    kani::cover!(true, "no timer");
    core::mem::forget(fut);
}
