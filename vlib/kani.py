"""Engine K: inject harnesses into a scratch copy of /repo, compile with Kani, run the CBMC pipeline
per harness in parallel, and classify every result (pass / fail / inconclusive).

Nothing here looks at a cached verdict: every call re-copies /repo's working tree and recompiles.
"""
import json, os, re, shutil, subprocess, sys, time, glob, threading, signal
from concurrent.futures import ThreadPoolExecutor

VERIF = os.path.dirname(os.path.dirname(os.path.abspath(__file__)))
REPO = os.environ.get("VERIF_REPO", "/repo")
KANI_HOME = os.path.expanduser("~/.kani/kani-0.68.0")
KANI_LIB_C = os.path.join(KANI_HOME, "library/kani/kani_lib.c")

ENV = dict(os.environ)
ENV["CARGO_NET_OFFLINE"] = "true"
ENV.pop("RUSTUP_TOOLCHAIN", None)
# glibc tuning measured in DESIGN P18 (CBMC spends most of its time in page faults)
ENV.setdefault("MALLOC_TOP_PAD_", str(256 * 1024 * 1024))
ENV.setdefault("MALLOC_TRIM_THRESHOLD_", str(1024 * 1024 * 1024))

# ---------------------------------------------------------------------------------------------
# build configurations
# ---------------------------------------------------------------------------------------------
# shims: tracing (always), vbytes (Vec-backed bytes model), http (constant-hash patch)
CONFIGS = {
    "core":      dict(pkg="tonic", features="",                    members=["tonic"], shims=["tracing", "http"]),
    "core_vb":   dict(pkg="tonic", features="",                    members=["tonic"], shims=["tracing", "http", "vbytes"]),
    "comp":      dict(pkg="tonic", features="gzip,deflate,zstd",   members=["tonic"], shims=["tracing", "http"]),
    "comp_vb":   dict(pkg="tonic", features="gzip,deflate,zstd",   members=["tonic"], shims=["tracing", "http", "vbytes"]),
    "prost":     dict(pkg="tonic", features="prost",               members=["tonic"], shims=["tracing", "http"]),
    "transport": dict(pkg="tonic", features="channel,server",      members=["tonic"], shims=["tracing", "http"]),
    "transport_vb": dict(pkg="tonic", features="channel,server",   members=["tonic"], shims=["tracing", "http", "vbytes"]),
    "web":       dict(pkg="tonic-web", features="",                members=["tonic", "tonic-web"], shims=["tracing", "http"]),
    "web_vb":    dict(pkg="tonic-web", features="",                members=["tonic", "tonic-web"], shims=["tracing", "http", "vbytes"]),
    "types":     dict(pkg="tonic-types", features="",              members=["tonic", "tonic-types"], shims=["tracing", "http"]),
    "types_vb":  dict(pkg="tonic-types", features="",              members=["tonic", "tonic-types"], shims=["tracing", "http", "vbytes"]),
    # variants with the inline HeaderMap model instead of the real map with a constant hash
    "core_m":    dict(pkg="tonic", features="",                    members=["tonic"], shims=["tracing", "httpm"]),
    "comp_m":    dict(pkg="tonic", features="gzip,deflate,zstd",   members=["tonic"], shims=["tracing", "httpm"]),
    "transport_m": dict(pkg="tonic", features="channel,server",    members=["tonic"], shims=["tracing", "httpm"]),
    "web_m":     dict(pkg="tonic-web", features="",                members=["tonic", "tonic-web"], shims=["tracing", "httpm"]),
}

SHIM_PATHS = {
    "tracing": ("tracing", os.path.join(VERIF, "shims/tracing")),
    "vbytes": ("bytes", os.path.join(VERIF, "shims/vbytes")),
    "http": ("http", os.path.join(VERIF, ".cache/http-patched")),
    "httpm": ("http", os.path.join(VERIF, ".cache/http-model")),
}


def log(*a):
    print("[verif]", *a, file=sys.stderr, flush=True)


def scratch_root():
    base = os.environ.get("VERIF_SCRATCH") or os.environ.get("TMPDIR") or "/tmp"
    return base


class Scratch:
    """A throw-away copy of /repo with a trimmed workspace, shims patched in and harness modules appended."""

    def __init__(self, config, tag="k"):
        self.config = config
        self.cfg = CONFIGS[config]
        self.dir = os.path.join(scratch_root(), "tonic-verif.%d.%s.%s" % (os.getpid(), config, tag))
        self.src = os.path.join(self.dir, "src")
        self.target = os.path.join(self.dir, "target")

    def prepare(self, injections, native=False, rewrites=None):
        """injections: {repo-relative real file: absolute harness file}.  native=True: no shims (replay)."""
        if os.path.exists(self.dir):
            shutil.rmtree(self.dir)
        os.makedirs(self.dir)
        subprocess.check_call(["rsync", "-a", "--exclude", "/target", "--exclude", ".git", REPO + "/", self.src + "/"])
        members = self.cfg["members"]
        patch = ""
        if not native:
            if "http" in self.cfg["shims"]:
                ensure_http_patched()
            if "httpm" in self.cfg["shims"]:
                ensure_http_model()
            lines = []
            for s in self.cfg["shims"]:
                name, path = SHIM_PATHS[s]
                lines.append('%s = { path = "%s" }' % (name, path))
            patch = "[patch.crates-io]\n" + "\n".join(lines) + "\n"
        with open(os.path.join(self.src, "Cargo.toml"), "w") as f:
            f.write("[workspace]\nmembers = [%s]\nresolver = \"2\"\n\n[workspace.package]\nrust-version = \"1.75\"\n\n"
                    "[workspace.lints.rust]\n\n[workspace.lints.rustdoc]\n\n%s" % (", ".join('"%s"' % m for m in members), patch))
        for (rel, old, new, count) in (rewrites or []):
            rp = os.path.join(self.src, rel)
            text = open(rp).read() if os.path.exists(rp) else ""
            if text.count(old) != count:
                raise Inconclusive("rewrite of %s does not apply (%d occurrences of %r, expected %d)" % (rel, text.count(old), old, count))
            open(rp, "w").write(text.replace(old, new))
        for real, harness in sorted(injections.items()):
            p = os.path.join(self.src, real)
            if not os.path.exists(p):
                raise Inconclusive("anchor file %s no longer exists in /repo" % real)
            modname = "verif_" + re.sub(r"[^a-z0-9]", "_", os.path.basename(harness).replace(".rs", ""))
            with open(p, "a") as f:
                f.write('\n#[cfg(kani)]\n#[path = "%s"]\nmod %s;\n' % (harness, modname))
        return self

    def cleanup(self):
        if os.environ.get("VERIF_KEEP"):
            log("keeping scratch", self.dir)
            return
        shutil.rmtree(self.dir, ignore_errors=True)


class Inconclusive(Exception):
    pass


_http_lock = threading.Lock()


def ensure_http_patched():
    """Scratch copy of the pinned http-1.5.0 with one function changed: hash_elem_using returns a constant under
    cfg(kani) (all keys collide; probing / robin-hood / entry code stays real).  Fails closed if the hunk does not apply."""
    with _http_lock:
        dst = os.path.join(VERIF, ".cache/http-patched")
        stamp = os.path.join(dst, ".verif-patched")
        if os.path.exists(stamp) and open(stamp).read().startswith("constant hash"):
            return dst
        srcs = glob.glob(os.path.expanduser("~/.cargo/registry/src/*/http-1.5.0"))
        if not srcs:
            raise Inconclusive("pinned http-1.5.0 source not found in the cargo registry")
        tmp = dst + ".tmp.%d" % os.getpid()
        shutil.rmtree(tmp, ignore_errors=True)
        shutil.copytree(srcs[0], tmp)
        mp = os.path.join(tmp, "src/header/map.rs")
        text = open(mp).read()
        needle = "fn hash_elem_using<K>(danger: &Danger, k: &K) -> HashValue\nwhere\n    K: Hash + ?Sized,\n{\n"
        if text.count(needle) != 1:
            shutil.rmtree(tmp, ignore_errors=True)
            raise Inconclusive("http patch hunk (hash_elem_using) does not apply")
        text = text.replace(needle, needle + "    if cfg!(kani) {\n        let _ = (danger, k);\n        return HashValue(0);\n    }\n", 1)
        open(mp, "w").write(text)
        for junk in (".cargo-ok", ".cargo_vcs_info.json", "Cargo.toml.orig"):
            try:
                os.remove(os.path.join(tmp, junk))
            except OSError:
                pass
        open(os.path.join(tmp, ".verif-patched"), "w").write("constant hash under cfg(kani)\n")
        shutil.rmtree(dst, ignore_errors=True)
        os.makedirs(os.path.dirname(dst), exist_ok=True)
        os.rename(tmp, dst)
        return dst


def ensure_http_model():
    """Scratch copy of the pinned http-1.5.0 with src/header/map.rs replaced by the Vec-backed model
    /verif/shims/http-model/map.rs (DESIGN §3.4).  Regenerated whenever absent or the model changed."""
    with _http_lock:
        dst = os.path.join(VERIF, ".cache/http-model")
        model = os.path.join(VERIF, "shims/http-model/map.rs")
        stamp = os.path.join(dst, ".verif-patched")
        sig = str(os.path.getmtime(model)) + ":" + str(os.path.getsize(model))
        if os.path.exists(stamp) and open(stamp).read().strip() == sig:
            return dst
        srcs = glob.glob(os.path.expanduser("~/.cargo/registry/src/*/http-1.5.0"))
        if not srcs:
            raise Inconclusive("pinned http-1.5.0 source not found in the cargo registry")
        tmp = dst + ".tmp.%d" % os.getpid()
        shutil.rmtree(tmp, ignore_errors=True)
        shutil.copytree(srcs[0], tmp)
        mp = os.path.join(tmp, "src/header/map.rs")
        if not os.path.exists(mp):
            shutil.rmtree(tmp, ignore_errors=True)
            raise Inconclusive("http source layout changed: src/header/map.rs missing")
        shutil.copyfile(model, mp)
        for junk in (".cargo-ok", ".cargo_vcs_info.json", "Cargo.toml.orig"):
            try:
                os.remove(os.path.join(tmp, junk))
            except OSError:
                pass
        open(os.path.join(tmp, ".verif-patched"), "w").write(sig + "\n")
        shutil.rmtree(dst, ignore_errors=True)
        os.makedirs(os.path.dirname(dst), exist_ok=True)
        os.rename(tmp, dst)
        return dst


# ---------------------------------------------------------------------------------------------
# compile
# ---------------------------------------------------------------------------------------------
def kani_codegen(scratch, harness_names, timeout=1500):
    """cargo kani --only-codegen for the given harness function names; returns {name: metadata dict}."""
    cfg = scratch.cfg
    cmd = ["cargo", "kani", "-p", cfg["pkg"], "--no-default-features"]
    if cfg["features"]:
        cmd += ["--features", cfg["features"]]
    cmd += ["-Z", "stubbing", "--only-codegen", "--target-dir", scratch.target]
    for h in harness_names:
        cmd += ["--harness", h]
    t0 = time.time()
    p = subprocess.run(cmd, cwd=scratch.src, env=ENV, stdout=subprocess.PIPE, stderr=subprocess.STDOUT, text=True, timeout=timeout)
    build_log = os.path.join(scratch.dir, "build.log")
    open(build_log, "w").write(p.stdout)
    if p.returncode != 0:
        tail = "\n".join(l for l in p.stdout.splitlines() if "error" in l.lower())[-3000:]
        raise Inconclusive("kani build failed (exit %d): %s" % (p.returncode, tail or p.stdout[-2000:]))
    metas = glob.glob(os.path.join(scratch.target, "kani", "*", "debug", "build", "*", "*", "out", "*.kani-metadata.json"))
    metas += glob.glob(os.path.join(scratch.target, "kani", "*", "debug", "deps", "*.kani-metadata.json"))
    found = {}
    for m in sorted(metas, key=os.path.getmtime):
        try:
            j = json.load(open(m))
        except Exception:
            continue
        for h in j.get("proof_harnesses", []):
            short = h["pretty_name"].split("::")[-1]
            if short in harness_names:
                found[short] = h
    missing = [h for h in harness_names if h not in found]
    if missing:
        raise Inconclusive("harnesses not produced by codegen: %s" % ", ".join(missing))
    return found, time.time() - t0


# ---------------------------------------------------------------------------------------------
# per-harness CBMC pipeline
# ---------------------------------------------------------------------------------------------
def _run(cmd, timeout, mem_gb, out_path=None):
    """Run with a wall-clock cap and an address-space cap; returns (rc, stdout_text, timed_out)."""
    pre = ["prlimit", "--as=%d" % int(mem_gb * 1024 ** 3)] if mem_gb else []
    f = open(out_path, "w") if out_path else subprocess.PIPE
    try:
        p = subprocess.Popen(pre + cmd, env=ENV, stdout=f, stderr=subprocess.STDOUT, text=True, start_new_session=True)
        try:
            out, _ = p.communicate(timeout=timeout)
            return p.returncode, out, False
        except subprocess.TimeoutExpired:
            try:
                os.killpg(p.pid, signal.SIGKILL)
            except OSError:
                pass
            p.wait()
            return -9, None, True
    finally:
        if out_path:
            f.close()


DEFAULT_UNWINDSET = [
    ("drop_glue::<[http::header::map::Bucket<", 4),      # header maps in harnesses hold <= 3 entries
    ("drop_glue::<[http::header::map::ExtraValue<", 3),  # <= 2 extra values (repeated name)
]


def run_harness(meta, unwind, cap_s, mem_gb, workdir, extra_cbmc=(), unwindset=None, trace=False):
    if unwindset is None:
        unwindset = DEFAULT_UNWINDSET
    """goto-cc/goto-instrument/cbmc exactly as kani-driver 0.68 runs them; returns a result dict."""
    name = meta["pretty_name"].split("::")[-1]
    t0 = time.time()
    res = dict(harness=name, status="inconclusive", reason="", failed=[], covers={}, checks=0, solver_s=None,
               wall_s=0.0, unwind=unwind)
    symtab = meta["goto_file"]
    linked = symtab[:-len(".symtab.out")] + ".out"
    work = os.path.join(workdir, name + ".goto")
    try:
        if not os.path.exists(linked):
            rc, out, to = _run(["goto-cc", symtab, KANI_LIB_C, "-o", linked], 600, None)
            if rc != 0:
                res["reason"] = "goto-cc link failed"
                return res
        steps = [
            ["goto-cc", linked, "--function", meta["mangled_name"], "-o", work],
            ["goto-instrument", "--add-library", "--no-malloc-may-fail", work, work],
            ["goto-instrument", "--generate-function-body-options", "assert-false-assume-false",
             "--generate-function-body", ".*", "--drop-unused-functions", work, work],
            ["goto-instrument", "--ensure-one-backedge-per-target", work, work],
        ]
        for s in steps:
            rc, out, to = _run(s, 900, None)
            if rc != 0 or to:
                res["reason"] = "%s failed (rc=%s): %s" % (s[0], rc, (out or "")[-500:])
                return res
        uw = unwind if unwind is not None else meta["attributes"].get("unwind_value")
        # per-loop bounds (checked by unwinding assertions): drop glue of header-map entry vectors etc.
        uwset = []
        if unwindset:
            rc, out, to = _run(["cbmc", "--show-loops", work], 300, None)
            cur = None
            for line in (out or "").splitlines():
                m = re.match(r"Loop (\S+):$", line)
                if m:
                    cur = m.group(1)
                elif cur and line.startswith("  file "):
                    for pat, n in unwindset:
                        if pat in line:
                            uwset.append("%s:%d" % (cur, n))
                            break
                    cur = None
        cbmc = ["cbmc", "--no-malloc-may-fail", "--no-undefined-shift-check", "--no-signed-overflow-check", "--nan-check",
                "--no-self-loops-to-assumptions", "--no-pointer-primitive-check", "--object-bits", "16"]
        if uw is not None:
            cbmc += ["--unwind", str(uw)]
        if uwset:
            cbmc += ["--unwindset", ",".join(uwset)]
        res["unwindset"] = uwset
        cbmc += ["--sat-solver", "cadical", "--slice-formula"] + list(extra_cbmc) + [work, "--json-ui", "--verbosity", "8"]
        if trace:
            cbmc += ["--trace"]
        res["unwind"] = uw
        outp = os.path.join(workdir, name + (".trace.json" if trace else ".cbmc.json"))
        res["json"] = outp
        rc, _, to = _run(cbmc, cap_s, mem_gb, outp)
        res["wall_s"] = round(time.time() - t0, 1)
        if to:
            res["reason"] = "timeout after %ds" % cap_s
            return res
        parse_cbmc_json(outp, res, rc)
        return res
    finally:
        res["wall_s"] = round(time.time() - t0, 1)
        try:
            os.remove(work)
        except OSError:
            pass


def parse_cbmc_json(path, res, rc):
    try:
        data = json.load(open(path))
    except Exception as e:
        # cbmc killed (OOM / signal) leaves a truncated array
        raw = open(path, errors="replace").read()
        m = re.search(r"size of program expression: (\d+) steps", raw)
        m2 = re.search(r"Generated (\d+) VCC\(s\), (\d+) remaining", raw)
        res["reason"] = "cbmc output unparsable (rc=%s; killed or out of memory; symex steps=%s, vccs=%s)" % (
            rc, m.group(1) if m else "?", m2.group(2) if m2 else "?")
        return
    results = None
    status = None
    solver_s = 0.0
    for e in data:
        if not isinstance(e, dict):
            continue
        if "result" in e:
            results = e["result"]
        if "cProverStatus" in e:
            status = e["cProverStatus"]
        mt = e.get("messageText")
        if mt:
            m = re.search(r"Runtime (?:decision procedure|Solver): ([0-9.]+)s", mt)
            if m:
                solver_s += float(m.group(1))
            m = re.search(r"size of program expression: (\d+) steps", mt)
            if m:
                res["symex_steps"] = int(m.group(1))
            m = re.search(r"Generated (\d+) VCC\(s\), (\d+) remaining", mt)
            if m:
                res["vccs"] = int(m.group(2))
            m = re.search(r"Runtime Symex: ([0-9.]+)s", mt)
            if m:
                res["symex_s"] = float(m.group(1))
            m = re.search(r"^(\d+) variables, (\d+) clauses", mt)
            if m:
                res["sat_vars"] = max(res.get("sat_vars", 0), int(m.group(1)))
                res["sat_clauses"] = max(res.get("sat_clauses", 0), int(m.group(2)))
            if e.get("messageType") == "ERROR":
                res.setdefault("errors", []).append(mt[:300])
    res["solver_s"] = round(solver_s, 2)
    if results is None or status is None:
        res["reason"] = "cbmc gave no result list (rc=%s) %s" % (rc, "; ".join(res.get("errors", []))[:300])
        return
    nerr = sum(1 for r in results if r["status"] == "ERROR")
    if status == "error" or nerr:
        res["reason"] = "cbmc/solver error (%d checks with status ERROR): %s" % (nerr, "; ".join(res.get("errors", []))[:300])
        return
    reach = {}
    for r in results:
        cls = r["property"].rsplit(".", 2)[-2] if r["property"].count(".") >= 2 else ""
        if cls == "reachability_check":
            reach[r["description"].strip()] = r["status"]
    failed, covers, unwind_fail, nchecks = [], {}, [], 0
    for r in results:
        parts = r["property"].rsplit(".", 2)
        cls = parts[-2] if len(parts) == 3 else ""
        desc = r["description"]
        loc = r.get("sourceLocation", {})
        where = "%s:%s" % (loc.get("file", "?"), loc.get("line", "?"))
        if cls == "reachability_check":
            continue
        m = re.match(r"\[(KANI_CHECK_ID_[^\]]+)\]\s*(.*)", desc, re.S)
        cid, text = (m.group(1), m.group(2)) if m else (None, desc)
        if cls == "cover":
            key = "%s @%s" % (text.replace("cover condition: ", ""), loc.get("line", "?"))
            if r["status"] == "FAILURE":
                covers[key] = "SATISFIED"
            else:
                covers[key] = "UNSATISFIABLE"
            continue
        nchecks += 1
        if r["status"] == "FAILURE":
            if cls == "unwind" or "unwinding assertion" in desc:
                unwind_fail.append("%s %s" % (text, where))
            else:
                failed.append(dict(check=r["property"], desc=text[:300], where=where))
        elif r["status"] not in ("SUCCESS",):
            failed.append(dict(check=r["property"], desc="status %s: %s" % (r["status"], text[:200]), where=where))
    res["checks"] = nchecks
    res["covers"] = covers
    res["failed"] = failed
    res["unwind_fail"] = unwind_fail
    if failed:
        res["status"] = "fail"
        res["reason"] = "%d failed checks" % len(failed)
    elif unwind_fail:
        res["status"] = "inconclusive"
        res["reason"] = "unwinding assertion failed (bound too small): " + "; ".join(unwind_fail[:3])
    elif status == "success" or (status == "failure" and not failed):
        # status 'failure' with only cover/reachability "failures" is a pass
        res["status"] = "pass"
        res["reason"] = ""
    else:
        res["reason"] = "cbmc status %s" % status


def run_all(metas, specs, workdir, jobs):
    """specs: {name: dict(unwind, cap_s, mem_gb, extra_cbmc, unwindset)}; runs in parallel under a job limit AND a memory
    budget (sum of the address-space caps of the running harnesses <= VERIF_MEM_GB); returns {name: result}."""
    os.makedirs(workdir, exist_ok=True)
    out = {}
    budget = float(os.environ.get("VERIF_MEM_GB", "50"))
    order = sorted(metas, key=lambda n: (-specs[n].get("mem_gb", 10), -specs[n].get("cap_s", 240)))
    lock = threading.Condition()
    state = dict(mem=0.0, running=0)

    def worker(n):
        sp = specs[n]
        need = min(float(sp.get("mem_gb", 10)), budget)
        with lock:
            while state["running"] >= jobs or state["mem"] + need > budget + 1e-9:
                lock.wait()
            state["running"] += 1
            state["mem"] += need
        try:
            try:
                r = run_harness(metas[n], sp.get("unwind"), sp.get("cap_s", 240), sp.get("mem_gb", 10), workdir,
                                sp.get("extra_cbmc", ()), sp.get("unwindset"))
            except Exception as e:  # noqa
                r = dict(harness=n, status="inconclusive", reason="runner exception: %r" % (e,), failed=[], covers={},
                         checks=0, solver_s=None, wall_s=0.0)
        finally:
            with lock:
                state["running"] -= 1
                state["mem"] -= need
                lock.notify_all()
        out[n] = r
        log("%-48s %-12s %6.1fs checks=%-5s steps=%s vccs=%s %s" % (n, r["status"], r["wall_s"], r["checks"], r.get("symex_steps"),
                                                                   r.get("vccs"), r["reason"][:140]))

    threads = [threading.Thread(target=worker, args=(n,)) for n in order]
    for t in threads:
        t.start()
    for t in threads:
        t.join()
    return out


# ---------------------------------------------------------------------------------------------
# counterexample extraction from a CBMC trace (used instead of Kani's own concrete playback, which switches formula
# slicing off and then exhausts memory on the larger harnesses)
# ---------------------------------------------------------------------------------------------
_SIZES = {"u8": 1, "i8": 1, "bool": 1, "u16": 2, "i16": 2, "u32": 4, "i32": 4, "char": 4, "f32": 4, "u64": 8, "i64": 8, "usize": 8,
          "isize": 8, "f64": 8, "u128": 16, "i128": 16}


def _type_size(t):
    t = t.strip()
    if t in _SIZES:
        return _SIZES[t]
    m = re.match(r"\[(.+); (\d+)\]$", t)
    if m:
        inner = _type_size(m.group(1))
        return None if inner is None else inner * int(m.group(2))
    return None


def concrete_values_from_trace(json_path):
    """Returns (list of byte lists, one per kani::any_raw_* call in execution order, description of the failed check) or (None, why).
    Values that the slicer removed (they do not influence the failed check) are filled with zeros."""
    try:
        data = json.load(open(json_path))
    except Exception as e:  # noqa
        return None, "trace output unparsable: %r" % (e,)
    results = None
    for e in data:
        if isinstance(e, dict) and "result" in e:
            results = e["result"]
    if not results:
        return None, "no results in trace run"
    chosen = None
    for r in results:
        cls = r["property"].rsplit(".", 2)[-2] if r["property"].count(".") >= 2 else ""
        if r["status"] == "FAILURE" and cls not in ("cover", "reachability_check", "unwind") and r.get("trace"):
            chosen = r
            break
    if chosen is None:
        return None, "no failed check with a trace"
    vals = []
    stack = []  # open any_raw calls: dict(size, elem, bytes)
    for st in chosen["trace"]:
        t = st.get("stepType")
        if t == "function-call":
            name = st.get("function", {}).get("displayName", "")
            m = re.match(r"kani::any_raw_internal::<(.+)>$", name)
            m2 = re.match(r"kani::any_raw_array::<(.+), (\d+)>$", name)
            if m:
                size = _type_size(m.group(1))
                if size is None:
                    return None, "unknown type in kani::any: %s" % m.group(1)
                stack.append(dict(size=size, elem=size, bytes=[0] * size))
            elif m2:
                es = _type_size(m2.group(1))
                if es is None:
                    return None, "unknown element type in kani::any: %s" % m2.group(1)
                n = int(m2.group(2))
                stack.append(dict(size=es * n, elem=es, bytes=[0] * (es * n)))
            else:
                stack.append(None)
        elif t == "function-return":
            if stack:
                top = stack.pop()
                if top is not None and top["size"] > 0:
                    # kani's playback library reads an array as N separate values of the element type
                    for k in range(0, top["size"], top["elem"]):
                        vals.append(top["bytes"][k:k + top["elem"]])
        elif t == "assignment" and stack and stack[-1] is not None:
            top = stack[-1]
            lhs = st.get("lhs", "")
            v = st.get("value", {})
            b = v.get("binary")
            if b is None or not lhs.startswith("var_0"):
                continue
            m = re.match(r"var_0\[(\d+)\]$", lhs)
            idx = int(m.group(1)) if m else (0 if lhs == "var_0" else None)
            if idx is None:
                continue
            nbytes = max(1, len(b) // 8)
            num = int(b, 2)
            off = idx * top["elem"]
            for k in range(min(nbytes, top["elem"])):
                if off + k < len(top["bytes"]):
                    top["bytes"][off + k] = (num >> (8 * k)) & 0xFF
    return vals, chosen["description"]
