#!/usr/bin/env python3
"""Regenerates /verif/MANIFEST.json from the harness table (vlib/table.py) and the per-property texts below."""
import json, os, sys

sys.path.insert(0, os.path.dirname(os.path.abspath(__file__)))
import table

VERIF = os.path.dirname(os.path.dirname(os.path.abspath(__file__)))

TECH = ("bounded model checking of the real tonic functions: Kani 0.68 harnesses (kani::any inputs, unwinding assertions on) injected "
        "into a scratch copy of /repo, decided by CBMC 6.11 + CaDiCaL; counterexamples replayed natively via concrete playback")

CLAIMS = {
    "C01": dict(
        text="For every input inside the stated bounds the solver shows: the encoder appends exactly [flag, BE32(len), payload] behind what "
             "is buffered (encode_item, finish_encoding, EncodeBuf), also on the compressed path with an abstract invertible codec standing "
             "in for flate2/zstd (flag 1, length of the compressor's output, the announced encoding); one poll of the batching encoder "
             "equals an independent reference model for every source readiness pattern (outcome, chunk length, hand-off; Pending only "
             "with an empty buffer); the decoder's header/body/short-prefix steps recognise exactly the complete frames at the front of "
             "an arbitrary buffer, hand exactly the payload (or the decompressor's output) to the codec through DecodeBuf and consume "
             "nothing otherwise. Stream-level statements follow from these one-step facts by induction on the invariant named in "
             "DESIGN §4/C01; they are not separately model-checked.",
        note="Outside: real gzip/deflate/zstd streams and prost (a byte-copy codec and an abstract compressor stand in); payloads > 2 bytes "
             "on the encoder side; more than 2 source events per poll; the Streaming::poll_next loop. bytes model (vbytes) used for the "
             "batching harnesses only.",
        ref="§4 C01, §10.6"),
    "C02": dict(
        text="Narrowed to the codec/status state machines the property names: the batching encoder hands a handler/source error out after "
             "the frames encoded before it (one step, differential vs. reference), and when no grpc-status is available the HTTP-status "
             "mapping is the gRPC table for all 500 status codes.",
        note="Outside: client::Grpc / server::Grpc async call shapes, h2 fragmentation, metadata merge, trailers-only detection.",
        ref="§4 C02"),
    "C03": dict(
        text="Frame bytes written by encode_item/finish_encoding are judged by an independent 5-byte-prefix reference (flag 0/1 exactly as a "
             "compression encoding is in force, big-endian length = payload length, payload untouched) for all small payloads and all "
             "limits, identity and (abstract-codec) compressed; one step of the batching encoder never emits a byte of a failed message.",
        note="Outside: request/response pseudo-headers (prepare_request, map_response), that the compressor behind flag 1 really is "
             "gzip/deflate/zstd, trailers emission through EncodeBody (thorough-tier attempt).",
        ref="§4 C03, §10.6"),
    "C04": dict(
        text="Solver-decided kernels of the status <-> header encoding: grpc-status text <-> Code for all byte strings <= 16 bytes and all 17 "
             "codes, Code::from_i32 total over i32, the HTTP-status mapping for all 100..=599, the HTTP/2 error-code mapping for every u32 "
             "reason, to_h2_error; reading a grpc-status header through a real 1-entry HeaderMap.",
        note="Outside: grpc-message percent-coding and details base64 through Status::from_header_map/add_header on maps with more than one "
             "entry (the real HeaderMap remove/clone paths and percent-encoding do not get through CBMC here; see DESIGN §2 P29-P33).",
        ref="§4 C04"),
    "C05": dict(
        text="Compressed-flag rule on the receive side for all prefixes and limits (no negotiated encoding: flag 1 => INTERNAL; negotiated: "
             "flag 1 selects exactly that encoding, flag 0 identity, flag >= 2 INTERNAL); the decompressor/compressor is called with the "
             "negotiated/announced encoding (abstract codec); the send side writes flag 1 exactly when an encoding is in force; "
             "EnabledCompressionEncodings set semantics (enable/is_enabled/is_empty/pop) for every history of <= 4 calls; no encoding is "
             "chosen when the request offers none.",
        note="Outside: from_accept_encoding_header / from_encoding_header with a header present and the grpc-accept-encoding text (thorough-tier "
             "attempts: header lookups + str::split/trim on heap data do not finish), server/client Grpc plumbing.",
        ref="§4 C05, §10.6"),
    "C06": dict(
        text="Exact limit comparison on both sides for ALL limits (any Option<usize>) and all declared lengths up to 2^32-1: decode accepts "
             "iff BE length <= limit, refuses with OUT_OF_RANGE in the call that consumed the prefix without growing the buffer; encode "
             "refuses iff len > limit; finish_encoding for EVERY slice length up to isize::MAX (fabricated slice, only the 5 prefix bytes are "
             "touched): accepted iff len <= limit and len <= u32::MAX, RESOURCE_EXHAUSTED beyond 4 GiB; an "
             "oversized message never takes earlier frames of the same batch with it (one-step differential).",
        note="Outside: encode_item producing a > 4 GiB payload (only finish_encoding sees such a length here), both roles end-to-end.",
        ref="§4 C06"),
    "C07": dict(
        text="For every buffer of the stated sizes, every limit, every direction: decode_chunk never panics and classifies flag/length "
             "exactly; at end of body leftover bytes or an open message are an INTERNAL error, never a clean end or Pending; the poll_next "
             "glue makes every error terminal (State::Error(None)) and a terminal stream yields None without polling the body again - the "
             "inductive step that gives 'first error is final' for histories of any length.",
        note="Outside: real inflate/zstd on garbage, prost decoding, bodies delivered through Body::new(dyn) (poll_frame is scripted in the "
             "glue harness and decided separately for the ended body).",
        ref="§4 C07"),
    "C08": dict(
        text="-bin classification for all ASCII keys <= 7 bytes; typed accessors (get/get_bin/iter) never cross ASCII/binary on a real "
             "one-entry map; a peer's binary value decodes to the bytes of an arithmetic reference whether it is '='-padded or not (all "
             "canonical 2- and 3-character quanta); empty binary value round trip.",
        note="Outside: reserved-name stripping on 2-entry maps, the base64 *encode* side for values of 1..3 bytes and repeated keys of an "
             "error status (thorough-tier attempts; HeaderMap::remove on populated maps and String growth with symbolic bytes exhaust "
             "the solver's memory here), the wire path.",
        ref="§4 C08, §10.6"),
    "C09": dict(
        text="duration_to_grpc_timeout writes a (value, unit) with value <= 99_999_999, value*unit <= requested < (value+1)*unit and the finest "
             "fitting unit, for ALL durations up to 99_999_999 hours (formatter call replaced by a recorder); try_parse_grpc_timeout == the "
             "gRPC grammar on real one-entry maps for all 1..3-byte values and the 8/9-digit boundary; GrpcTimeout::call arms "
             "min(header, configured).",
        note="Outside: the race inner-future vs. Sleep in ResponseFuture::poll (tokio timer), decimal rendering by core::fmt (trusted).",
        ref="§4 C09"),
    "C12": dict(
        text="InterceptedService::call + ResponseFuture::poll for symbolic method (6), version (5), accept/reject, reject code, body: accept "
             "=> wrapped service called once with identical method/version/URI/body/headers (+ the interceptor's insertion); reject => "
             "never called, HTTP 200 + application/grpc + that grpc-status.",
        note="Outside: extensions, maps with > 2 entries, custom header names.", ref="§4 C12"),
    "C14": dict(
        text="Narrowed to the Reconnect state machine: from EVERY state and for EVERY fault script of k events one poll_ready + one call "
             "never panics ('service not ready' unreachable), reports an eager initial failure immediately, parks any other connect "
             "failure for exactly one call (with the id of the failed attempt) and clears it, never re-polls a completed connect future, "
             "starts no new attempt while an error is undelivered, reaches the connection once connector and connection are ready, and "
             "never reverts has_been_connected (inductive invariant: only the very first failure of an eager channel can surface from "
             "poll_ready, so a later outage cannot kill the channel).",
        note="Outside: tower Buffer worker, hyper connection tasks, Endpoint::connect*: the end-to-end 'every call completes'.",
        ref="§4 C14"),
    "C16": dict(
        text="Server-side grpc-web kernels: request classification on a real header map (grpc-web iff one of the four content-types, "
             "text iff a -text type, response text iff Accept is a -text type, otherwise Other(version)) for symbolic method and "
             "version; the base64 request decoder consumes exactly the largest multiple-of-4 prefix and equals an arithmetic reference "
             "for all alphabet strings of 3/4/6 characters.",
        note="Outside: the trailers frame writer with repeated names (thorough-tier attempt), the 405/400/pass-through match in "
             "GrpcWebService::call itself, payloads > 6 characters.",
        ref="§4 C16, §10.6"),
    "C17": dict(
        text="find_trailers == an independent frame walker for ALL buffers <= 12 bytes; trailers_frame_len (completeness of the trailers "
             "frame, which the repaired client loop waits for) == reference for all buffers <= 10 bytes.",
        note="Outside: one poll of the client body loop and decode_trailers_frame (thorough-tier attempts: the pin-projected loop plus "
             "HeaderMap building runs out of solver memory), base64 responses on the client side (not implemented by tonic-web either).",
        ref="§4 C17, §10.6"),
    "C20": dict(
        text="Narrowed to RetryInfo: for EVERY std Duration the retry delay that comes back through the protobuf Duration conversion is "
             "min(d, protobuf maximum) exactly, in both directions; optional: the Any encode/decode leg for RetryInfo.",
        note="Outside: the other nine detail kinds and ErrorDetails/Vec plumbing (prost encode/decode over heap strings and vectors: see "
             "DESIGN §4 C20), the header leg.",
        ref="§4 C20"),
}

NOT_APPLICABLE = {
    "C10": "routing is axum/matchit heap tries + a compiler-generated string match; no tonic-owned bounded kernel to encode for a solver",
    "C11": "proc-macro token-stream generation and file regeneration: string/tree construction and a deterministic diff - not a solver question",
    "C13": "meaning is task interleaving under tokio select!/spawn/watch + hyper GOAWAY; Kani has no concurrency and cannot compile the runtime here",
    "C15": "rustls/webpki/ring handshakes and certificate validation: crypto and FFI, not encodable",
    "C18": "tokio RwLock/watch semantics under concurrent writers/watchers; no sequential tonic kernel whose correctness implies the property",
    "C19": "HashMap<String,_> index over recursive descriptor trees; symbolic strings through SipHash/hashbrown are out of reach, concrete ones are just tests",
}


def build(claimed):
    checks = []
    for pid in sorted(claimed):
        c = CLAIMS[pid]
        checks.append(dict(
            property_id=pid,
            quick_cmd="./check %s --tier quick" % pid,
            thorough_cmd="./check %s --tier thorough" % pid,
            evidence_file="/verif/evidence/%s.json" % pid,
            replay_cmd_template="./check %s --replay {path}" % pid,
            engine="kani-cbmc",
            level_claimed=dict(category="model_checking", text=c["text"], design_ref="DESIGN.md " + c["ref"]),
            level_note=c["note"] + " Trusted base: Kani MIR->GOTO translation, CBMC, CaDiCaL, the shims listed in evidence "
                       "(no-op tracing, stubbed alloc::fmt::format, constant-hash http HeaderMap, Vec-backed bytes model where named).",
            technique=TECH,
        ))
    na = [dict(property_id=k, reason=v) for k, v in sorted(NOT_APPLICABLE.items())]
    for pid in sorted(CLAIMS):
        if pid not in claimed:
            na.append(dict(property_id=pid, reason="no harness of this property currently reaches a solver verdict within the caps; see DESIGN.md"))
    return dict(
        version=1,
        setup_cmd="python3 vlib/setup.py",
        hooks=dict(
            guard="cfg(kani)",
            enable="no hooks in /repo: every check copies /repo's working tree to a scratch directory, appends "
                   "`#[cfg(kani)] #[path=...] mod verif_*;` to the real source files it targets and compiles that copy with cargo kani",
            baseline_off_cmd="cd /repo && cargo nextest run --workspace --no-fail-fast --offline --test-threads 8 "
                             "|| cargo test --workspace --no-fail-fast --offline",
            source_commits=[],
            add_only=True,
        ),
        engines=[dict(name="kani-cbmc", path="/verif/vlib/kani.py", serves_properties=sorted(claimed),
                      kind_free_text="Kani 0.68 -> CBMC 6.11 -> CaDiCaL bounded model checking of harnesses injected into a scratch copy "
                                     "of the real source; own parallel goto-cc/goto-instrument/cbmc pipeline; native replay of counterexamples")],
        checks=checks,
        notes="See DESIGN.md. Exit codes of ./check: 0 = no violation among harnesses that reached a verdict (inconclusive ones are listed in "
              "evidence), 1 = natively replayed violation, 2 = nothing could be decided (build/engine failure).",
        not_applicable=na,
    )


if __name__ == "__main__":
    claimed = sys.argv[1:] or sorted(set(table.all_props()) & set(CLAIMS))
    m = build(claimed)
    json.dump(m, open(os.path.join(VERIF, "MANIFEST.json"), "w"), indent=1)
    print("claimed:", ", ".join(sorted(claimed)))
