#!/usr/bin/env python3
"""check <PROPERTY> [--tier quick|thorough] [--only SUBSTR] [--jobs N] [--replay FILE]

Decides one property by running its Kani harness families (Engine K) and SMT kernels (Engine Z) against the
current /repo working tree.  Exit 0: held on everything that reached a verdict; 1: a natively replayed
violation (prints `VIOLATION property=<id> replay=<path>`); 2: nothing could be decided.
"""
import argparse, json, os, sys, time, traceback

sys.path.insert(0, os.path.dirname(os.path.abspath(__file__)))
import kani  # noqa: E402
import table  # noqa: E402
import replay as replay_mod  # noqa: E402

VERIF = kani.VERIF


def load_findings():
    p = os.path.join(VERIF, "known_findings.json")
    if not os.path.exists(p):
        return []
    return json.load(open(p)).get("entries", [])


def match_finding(findings, pid, res):
    """A failed harness is a known finding only if *every* failed check matches one listed entry for this role."""
    import re
    hits = []
    for fc in res["failed"]:
        hit = None
        for f in findings:
            if f.get("status") != "finding" or f["property"] != pid:
                continue
            if f.get("harness_role") and f["harness_role"] != res.get("role"):
                continue
            if re.search(f["check_regex"], fc["desc"]):
                hit = f
                break
        if hit is None:
            return None
        hits.append(hit)
    return hits or None


def main():
    ap = argparse.ArgumentParser()
    ap.add_argument("property")
    ap.add_argument("--tier", default=os.environ.get("VERIF_TIER", "quick"))
    ap.add_argument("--only", default=None)
    ap.add_argument("--jobs", type=int, default=int(os.environ.get("VERIF_JOBS", "14")))
    ap.add_argument("--replay", default=None)
    ap.add_argument("--no-evidence", action="store_true")
    ap.add_argument("--cap-scale", type=float, default=float(os.environ.get("VERIF_CAP_SCALE", "1")))
    a = ap.parse_args()
    pid = a.property
    tier = "thorough" if a.tier.startswith("t") else "quick"
    seed = int(os.environ.get("VERIF_SEED", "0") or 0)
    t0 = time.time()

    if a.replay:
        ok = replay_mod.replay_file(a.replay)
        sys.exit(1 if ok else 0)

    specs = table.select(pid, tier, seed)
    if a.only:
        specs = [s for s in specs if a.only in s["name"]]
    zspecs = [s for s in specs if s.get("engine") == "Z"]
    kspecs = [s for s in specs if s.get("engine", "K") == "K"]
    if not specs:
        print("no harnesses registered for %s" % pid)
        sys.exit(2)

    results = {}
    build_s = {}
    scratches = []
    fatal = []
    try:
        by_cfg = {}
        for s in kspecs:
            by_cfg.setdefault(s["config"], []).append(s)
        # build every configuration first, then run all harnesses of the property in one pool
        all_metas, all_run, workdir = {}, {}, None
        for cfg, ss in sorted(by_cfg.items()):
            sc = kani.Scratch(cfg)
            scratches.append(sc)
            try:
                inj = {}
                for s in ss:
                    inj[s["file"]] = os.path.join(VERIF, "harness", s["harness_file"])
                rew = []
                for s in ss:
                    for r in s.get("rewrites", []):
                        if r not in rew:
                            rew.append(r)
                sc.prepare(inj, rewrites=rew)
                names = [s["name"] for s in ss]
                kani.log("config %s: compiling %d harnesses" % (cfg, len(names)))
                metas, bs = kani.kani_codegen(sc, names)
                build_s[cfg] = round(bs, 1)
                kani.log("config %s: built in %.0fs" % (cfg, bs))
                workdir = workdir or os.path.join(sc.dir, "work")
                for s in ss:
                    all_metas[s["name"]] = metas[s["name"]]
                    all_run[s["name"]] = dict(unwind=s.get("unwind"), cap_s=int(s.get("cap_s", 240) * a.cap_scale),
                                              mem_gb=s.get("mem_gb", 10), extra_cbmc=s.get("extra_cbmc", ()),
                                              unwindset=s.get("unwindset"))
            except kani.Inconclusive as e:
                kani.log("config %s inconclusive: %s" % (cfg, e))
                fatal.append("%s: %s" % (cfg, e))
                for s in ss:
                    results[s["name"]] = dict(harness=s["name"], status="inconclusive", reason=str(e)[:400], failed=[], covers={},
                                              checks=0, solver_s=None, wall_s=0.0, role=s.get("role", s["name"]), config=cfg)
        if all_metas:
            rs = kani.run_all(all_metas, all_run, workdir, a.jobs)
            for s in kspecs:
                if s["name"] in rs:
                    r = rs[s["name"]]
                    r["role"] = s.get("role", s["name"])
                    r["config"] = s["config"]
                    results[s["name"]] = r
        if zspecs:
            import zengine
            for s in zspecs:
                try:
                    r = zengine.run(s)
                except Exception as e:  # noqa
                    r = dict(harness=s["name"], status="inconclusive", reason="engine Z: %r" % (e,), failed=[], covers={}, checks=0,
                             solver_s=None, wall_s=0.0)
                r["role"] = s.get("role", s["name"])
                r["config"] = "Z"
                results[s["name"]] = r
                kani.log("%-48s %-12s %6.1fs checks=%-5s %s" % (s["name"], r["status"], r["wall_s"], r["checks"], r["reason"][:140]))

        # ---- vacuity: a passing harness with an unsatisfied cover is not a pass ---------------------------
        spec_by = {s["name"]: s for s in specs}
        for n, r in results.items():
            if r["status"] == "pass":
                bad = [c for c, v in r["covers"].items() if v != "SATISFIED"]
                allowed = spec_by[n].get("may_be_uncovered", [])
                bad = [c for c in bad if not any(al in c for al in allowed)]
                if bad:
                    r["status"] = "inconclusive"
                    r["reason"] = "vacuity witness not reachable: " + "; ".join(bad)[:300]
            exp = spec_by[n].get("expect", "pass")
            if exp == "fail":  # deliberately false twin: must come back failed
                if r["status"] == "fail":
                    r["status"], r["reason"], r["twin_ok"] = "pass", "false twin failed as expected", True
                    r["failed"] = []
                elif r["status"] == "pass":
                    r["status"], r["reason"] = "inconclusive", "false twin did NOT fail: harness family is vacuous"

        # ---- failures: known finding, or replay natively ---------------------------------------------------
        findings = load_findings()
        violations, known, unreproduced = [], [], []
        # cheapest counterexamples first; once one has been reproduced natively the others are not replayed
        for n, r in sorted(results.items(), key=lambda kv: kv[1].get("wall_s", 0)):
            if r["status"] != "fail":
                continue
            if violations and not os.environ.get("VERIF_REPLAY_ALL"):
                r["status"] = "fail_not_replayed"
                r["reason"] += " (not replayed: another counterexample of this run was already reproduced)"
                continue
            hits = match_finding(findings, pid, r)
            if hits:
                for h in hits:
                    known.append((n, h))
                r["status"] = "known_finding"
                continue
            s = spec_by[n]
            if n in all_metas:
                run = all_run[n]
                r["rerun"] = (lambda n=n, run=run: kani.run_harness(all_metas[n], run.get("unwind"), run.get("cap_s", 240) * 2,
                                                                     run.get("mem_gb", 10), workdir, run.get("extra_cbmc", ()),
                                                                     run.get("unwindset"), trace=True))
            rp = replay_mod.replay_failure(pid, s, r, scratches)
            r.pop("rerun", None)
            r["replay"] = rp
            if rp["reproduced"]:
                violations.append((n, rp["path"]))
            else:
                unreproduced.append((n, rp.get("why", "")))
                r["status"] = "unreproduced"
    finally:
        for sc in scratches:
            sc.cleanup()

    wall = time.time() - t0
    if not a.no_evidence:
        write_evidence(pid, tier, seed, specs, results, build_s, wall, len(violations), known)

    seen = set()
    for n, h in known:
        if h["id"] not in seen:
            seen.add(h["id"])
            print("KNOWN-FINDING: property=%s %s" % (pid, h["what"]))
    npass = sum(1 for r in results.values() if r["status"] == "pass")
    ninc = sum(1 for r in results.values() if r["status"] == "inconclusive")
    print("%s %s: %d harnesses, %d pass, %d inconclusive, %d violations, %d known, %d unreproduced, %.0fs" %
          (pid, tier, len(results), npass, ninc, len(violations), len(known), len(unreproduced), wall))
    for n, r in sorted(results.items()):
        if r["status"] not in ("pass",):
            print("  %-46s %-13s %s" % (n, r["status"], r["reason"][:200]))
            for fc in r.get("failed", [])[:6]:
                print("      failed: %s @ %s" % (fc["desc"][:160], fc["where"]))
    if violations:
        for n, path in violations:
            print("VIOLATION property=%s replay=%s" % (pid, path))
        sys.exit(1)
    if unreproduced:
        print("counterexamples that did not reproduce natively (stub/model suspected): %s" % unreproduced)
        sys.exit(2)
    mandatory_inc = [n for n, r in results.items() if r["status"] == "inconclusive" and not spec_by[n].get("optional")]
    if npass == 0 or fatal:
        print("nothing decided" if npass == 0 else "build failure: %s" % fatal)
        sys.exit(2)
    if mandatory_inc and os.environ.get("VERIF_STRICT"):
        sys.exit(2)
    sys.exit(0)


def write_evidence(pid, tier, seed, specs, results, build_s, wall, nviol, known):
    spec_by = {s["name"]: s for s in specs}
    decided = [r for r in results.values() if r["status"] in ("pass", "fail", "fail_not_replayed", "known_finding", "unreproduced")]
    nontrivial = [r for r in results.values() if r["status"] == "pass" and not r.get("twin_ok")
                  and all(v == "SATISFIED" for c, v in r["covers"].items()
                          if not any(al in c for al in spec_by[r["harness"]].get("may_be_uncovered", [])))
                  and (r["covers"] or spec_by[r["harness"]].get("engine") == "Z")]
    samples = []
    for n, r in sorted(results.items()):
        s = spec_by[n]
        samples.append(dict(harness=n, obligation=s.get("obligation", ""), engine=s.get("engine", "K"), config=r.get("config"),
                            bounds=s.get("bounds", ""), unwind=r.get("unwind"), verdict=r["status"], cbmc_checks=r["checks"],
                            covers=r["covers"], solver_s=r["solver_s"], wall_s=r["wall_s"], symex_steps=r.get("symex_steps"),
                            vccs_after_simplification=r.get("vccs"), sat_variables=r.get("sat_vars"), sat_clauses=r.get("sat_clauses"),
                            unwindset=r.get("unwindset"), note=r["reason"][:200]))
    funcs = sorted({f for s in specs for f in s.get("functions", [])})
    stubs = sorted({f for s in specs for f in s.get("stubs", [])})
    outside = sorted({f for s in specs for f in s.get("outside", [])})
    ev = dict(
        property_id=pid, tier=tier, seed=seed, level="model_checking",
        coverage=dict(
            evaluations=len(decided),
            distinct_nontrivial=len(nontrivial),
            rule="one evaluation = one harness instance for which CBMC/CaDiCaL returned a verdict over the compiled real functions "
                 "(all its VCCs discharged or a counterexample found); non-trivial = verdict 'pass' with every kani::cover! "
                 "reachability witness SATISFIED (witnesses that a given size tuple cannot reach are listed per harness in the table "
                 "and excluded); harness instances are distinct by (kernel, size tuple)",
            samples=samples,
            exhaustive=False,
            functions_encoded=funcs,
            stubs_and_models=stubs,
            outside_bounds=outside,
            queries=len(decided),
            cbmc_checks_total=sum(r["checks"] or 0 for r in results.values()),
            solver_s=round(sum(r["solver_s"] or 0 for r in results.values()), 1),
            build_s=build_s,
            inconclusive=[dict(harness=n, reason=r["reason"][:300]) for n, r in sorted(results.items()) if r["status"] == "inconclusive"],
            vacuity_twins_failed_as_expected=sum(1 for r in results.values() if r.get("twin_ok")),
            known_findings=[h["id"] for _, h in known],
        ),
        assumptions=sorted({x for s in specs for x in s.get("assumes", [])} | {
            "Kani 0.68 MIR->GOTO translation, CBMC 6.11, CaDiCaL; Kani's std allocation model (never fails)",
            "bounded claim: holds for all inputs inside the per-harness bounds listed in samples; nothing is claimed outside them",
        }),
        wall_s=round(wall, 1),
        violations=nviol,
    )
    os.makedirs(os.path.join(VERIF, "evidence"), exist_ok=True)
    tmp = os.path.join(VERIF, "evidence", "%s.json.tmp" % pid)
    json.dump(ev, open(tmp, "w"), indent=1)
    os.replace(tmp, os.path.join(VERIF, "evidence", "%s.json" % pid))


if __name__ == "__main__":
    try:
        main()
    except SystemExit:
        raise
    except Exception:
        traceback.print_exc()
        sys.exit(2)
