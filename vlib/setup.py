#!/usr/bin/env python3
"""setup: validates the two container models natively against the test-suites of the crates they stand in for.
Fails (exit 1) if a test outside the fixed, listed set of representation tests fails: the models are part of the
trusted base of every check (DESIGN §3.4), so a broken model must stop everything."""
import glob, os, re, shutil, subprocess, sys, tempfile

sys.path.insert(0, os.path.dirname(os.path.abspath(__file__)))
import kani

VERIF = kani.VERIF
ENV = dict(os.environ, CARGO_NET_OFFLINE="true")


def run_tests(cwd, env, label, expected_file):
    p = subprocess.run(["cargo", "test", "--offline", "--no-fail-fast"], cwd=cwd, env=env, stdout=subprocess.PIPE,
                       stderr=subprocess.STDOUT, text=True)
    out = p.stdout
    failed = sorted(set(re.findall(r"^test (\S+)(?: - should panic)? \.\.\. FAILED", out, re.M)))
    passed = len(re.findall(r"^test \S+.* \.\.\. ok", out, re.M))
    expected = sorted(l.strip() for l in open(expected_file) if l.strip())
    unexpected = [f for f in failed if f not in expected]
    print("%s: %d passed, %d failed (%d expected representation-only failures)" % (label, passed, len(failed), len(expected)))
    if passed < 20 or unexpected or "error: could not compile" in out:
        print("UNEXPECTED failures in %s: %s" % (label, unexpected))
        print(out[-3000:])
        return False
    return True


def main():
    ok = True
    base = tempfile.mkdtemp(prefix="tonic-verif-setup.")
    try:
        # 1. bytes model
        vb = os.path.join(base, "vbytes")
        shutil.copytree(os.path.join(VERIF, "shims/vbytes"), vb, ignore=shutil.ignore_patterns("target"))
        env = dict(ENV, CARGO_TARGET_DIR=os.path.join(base, "t1"))
        ok &= run_tests(vb, env, "bytes model vs bytes-1.12.1 tests", os.path.join(VERIF, "shims/vbytes/EXPECTED_FAILURES.txt"))
        # 2. HeaderMap model (with the big capacity used only for this native validation)
        kani.ensure_http_patched()
        http = kani.ensure_http_model()
        w = os.path.join(base, "httpmodel")
        os.makedirs(os.path.join(w, "src"))
        os.makedirs(os.path.join(w, "tests"))
        open(os.path.join(w, "Cargo.toml"), "w").write(
            '[package]\nname = "httpmodel-check"\nversion = "0.0.0"\nedition = "2021"\n[dependencies]\nhttp = { path = "%s" }\n[workspace]\n' % http)
        open(os.path.join(w, "src/lib.rs"), "w").write("")
        srcs = glob.glob(os.path.expanduser("~/.cargo/registry/src/*/http-1.5.0/tests/header_map.rs"))
        if not srcs:
            print("http-1.5.0 tests not found in the registry")
            ok = False
        else:
            shutil.copy(srcs[0], os.path.join(w, "tests/header_map.rs"))
            env = dict(ENV, CARGO_TARGET_DIR=os.path.join(base, "t2"), RUSTFLAGS="--cfg http_model_big")
            ok &= run_tests(w, env, "HeaderMap model vs http-1.5.0 tests/header_map.rs",
                            os.path.join(VERIF, "shims/http-model/EXPECTED_FAILURES.txt"))
    finally:
        shutil.rmtree(base, ignore_errors=True)
    sys.exit(0 if ok else 1)


if __name__ == "__main__":
    main()
