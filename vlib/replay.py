"""Native replay of solver counterexamples (DESIGN §3.7).

A failed harness is re-run by Kani with concrete playback; the printed unit test (concrete byte vectors for every
kani::any()) is appended to a copy of the harness module inside a *second* scratch copy of /repo that has none of the
[patch] shims (real tracing, real bytes, real http hash, real formatter) and executed with `cargo kani playback`.
Only a counterexample that panics there is reported as a violation.
"""
import json, os, re, shutil, subprocess, time
import kani

VERIF = kani.VERIF


def _extract_tests(out):
    """Return list of (test_name, test_source) from `--concrete-playback=print` output."""
    tests, seen = [], set()
    for m in re.finditer(r"(#\[test\]\s*\nfn (kani_concrete_playback_\w+)\(\) \{.*?\n\})\s*\n```", out, re.S):
        if m.group(2) in seen:
            continue  # Kani prints one test per failed check; identical inputs give identical names
        seen.add(m.group(2))
        tests.append((m.group(2), m.group(1)))
    return tests


def concrete_playback(scratch, spec, cap_s, unwindset=None):
    cfg = scratch.cfg
    cmd = ["cargo", "kani", "-p", cfg["pkg"], "--no-default-features"]
    if cfg["features"]:
        cmd += ["--features", cfg["features"]]
    cmd += ["-Z", "stubbing", "-Z", "concrete-playback", "--concrete-playback=print", "--harness", spec["name"],
            "--target-dir", scratch.target]
    if spec.get("unwind") is not None:
        cmd += ["--unwind", str(spec["unwind"])]
    if unwindset:
        # the same per-loop bounds the verdict was obtained with (must be the last flag)
        cmd += ["-Z", "unstable-options", "--cbmc-args", "--unwindset", ",".join(unwindset)]
    try:
        p = subprocess.run(cmd, cwd=scratch.src, env=kani.ENV, stdout=subprocess.PIPE, stderr=subprocess.STDOUT, text=True,
                           timeout=cap_s)
    except subprocess.TimeoutExpired:
        return None, "concrete playback timed out after %ds" % cap_s
    tests = _extract_tests(p.stdout)
    try:
        os.makedirs(os.path.join(VERIF, "replays"), exist_ok=True)
        open(os.path.join(VERIF, "replays", "last_playback_%s.log" % spec["name"]), "w").write(" ".join(cmd) + "\n" + p.stdout[-20000:])
    except OSError:
        pass
    if not tests:
        tail = [l for l in p.stdout.splitlines() if ("error" in l.lower() or "VERIFICATION" in l or "CBMC" in l)][-5:]
        return None, "kani printed no concrete playback test: " + " | ".join(tail)[:400]
    return tests, ""


def native_run(spec, tests, tag="replay", expect_msgs=None):
    """Build a shim-free scratch with the harness module copied + tests appended; run them natively.
    Returns (reproduced: bool, detail: str)."""
    sc = kani.Scratch(spec["config"], tag)
    try:
        hsrc = os.path.join(VERIF, "harness", spec["harness_file"])
        sc.prepare({}, native=True, rewrites=spec.get("rewrites"))
        shutil.copytree(os.path.join(VERIF, "harness"), os.path.join(sc.dir, "harness"))
        local = os.path.join(sc.dir, "harness", spec["harness_file"])
        text = open(hsrc).read()
        tests = tests[:4]
        text += "\n\n// ---- concrete playback tests (generated) ----\n" + "\n\n".join(t for _, t in tests) + "\n"
        open(local, "w").write(text)
        real = os.path.join(sc.src, spec["file"])
        with open(real, "a") as f:
            modname = "verif_" + re.sub(r"[^a-z0-9]", "_", os.path.basename(spec["harness_file"]).replace(".rs", ""))
            f.write('\n#[cfg(kani)]\n#[path = "%s"]\nmod %s;\n' % (local, modname))
        cfg = sc.cfg
        reproduced, details = False, []
        # default features stay ON here: tonic's own #[cfg(test)] modules (compiled by `cargo test`) need them
        cmd = ["cargo", "kani", "playback", "-Z", "concrete-playback", "-p", cfg["pkg"]]
        if cfg["features"]:
            cmd += ["--features", cfg["features"]]
        cmd += ["--", "kani_concrete_playback_", "--test-threads", "1"]
        env = dict(kani.ENV)
        env["CARGO_TARGET_DIR"] = sc.target
        try:
            p = subprocess.run(cmd, cwd=sc.src, env=env, stdout=subprocess.PIPE, stderr=subprocess.STDOUT, text=True,
                               timeout=1800)
            out = p.stdout
        except subprocess.TimeoutExpired as e:
            out = (e.stdout or b"").decode("utf8", "replace") if isinstance(e.stdout, bytes) else (e.stdout or "")
            details.append("native run timed out after 1800s (possible hang)")
        failed = re.findall(r"test \S*(kani_concrete_playback_\w+) \.\.\. FAILED", out)
        passed = re.findall(r"test \S*(kani_concrete_playback_\w+) \.\.\. ok", out)
        pm0 = re.search(r"panicked at ([^\n]*)", out)
        fmt_mismatch = bool(pm0 and "kani/src/concrete_playback.rs" in pm0.group(1)) or ("Not enough det vals" in out)
        if failed and fmt_mismatch:
            details.append("playback input does not match the harness' kani::any() sequence (not a reproduction): %s" % out[-300:])
        elif failed and expect_msgs and not any(m in out for m in expect_msgs):
            pm = re.search(r"panicked at ([^\n]*)\n([^\n]*)", out)
            details.append("native run panicked, but not with the violated check (%s): %s" % (
                expect_msgs[0][:60], (pm.group(1) + " " + pm.group(2)) if pm else "panic"))
        elif failed:
            reproduced = True
            pm = re.search(r"panicked at ([^\n]*)\n([^\n]*)", out)
            details.append("reproduced natively (%d of %d playback tests panic): %s" % (
                len(failed), len(failed) + len(passed), (pm.group(1) + " " + pm.group(2)) if pm else "panic"))
        elif passed:
            details.append("native run passed %d playback tests (counterexample does not reproduce)" % len(passed))
        else:
            details.append("native build/run inconclusive: %s" % out[-800:])
        return reproduced, "; ".join(details)
    finally:
        sc.cleanup()


def replay_failure(pid, spec, res, scratches):
    """Called for a harness whose CBMC verdict is 'fail'."""
    os.makedirs(os.path.join(VERIF, "replays", pid), exist_ok=True)
    path = os.path.join(VERIF, "replays", pid, spec["name"] + ".json")
    rec = dict(property=pid, harness=spec["name"], config=spec["config"], file=spec["file"], harness_file=spec["harness_file"],
               unwind=spec.get("unwind"), failed_checks=res["failed"][:20], obligation=spec.get("obligation", ""),
               rewrites=[list(r) for r in spec.get("rewrites", [])],
               created=time.strftime("%Y-%m-%dT%H:%M:%SZ", time.gmtime()))
    if spec.get("engine") == "Z":
        rec["model"] = res.get("model")
        rec["reproduced"] = bool(res.get("native_reproduced"))
        json.dump(rec, open(path, "w"), indent=1)
        return dict(reproduced=rec["reproduced"], path=path, why=res.get("native_detail", ""))
    sc = next((s for s in scratches if s.config == spec["config"]), None)
    tests, why = None, ""
    # 1. counterexample from our own CBMC run with --trace (slicing kept on)
    if res.get("rerun"):
        try:
            tr = res["rerun"]()
            if tr.get("json") and tr.get("status") == "fail":
                vals, what = kani.concrete_values_from_trace(tr["json"])
                if vals is not None:
                    body = ",\n".join("        vec![%s]" % ", ".join(str(x) for x in v) for v in vals)
                    tname = "kani_concrete_playback_%s_trace" % spec["name"]
                    src = ("#[test]\nfn %s() {\n    // counterexample for: %s\n    let concrete_vals: Vec<Vec<u8>> = vec![\n%s\n    ];\n"
                           "    kani::concrete_playback_run(concrete_vals, %s);\n}") % (tname, what.replace("\n", " ")[:150], body, spec["name"])
                    tests = [(tname, src)]
                else:
                    why = "trace extraction: " + str(what)
            else:
                why = "trace re-run did not fail again: %s" % tr.get("reason", "")
        except Exception as e:  # noqa
            why = "trace re-run failed: %r" % (e,)
    # 2. fall back to Kani's concrete playback
    if not tests:
        tests, why2 = concrete_playback(sc, spec, int(spec.get("cap_s", 240)) + 900, res.get("unwindset"))
        why = (why + "; " + why2).strip("; ")
    if not tests:
        rec["reproduced"] = False
        rec["why"] = why
        json.dump(rec, open(path, "w"), indent=1)
        return dict(reproduced=False, path=path, why=why)
    rec["tests"] = [dict(name=n, source=t) for n, t in tests]
    # the native panic must be the violated check itself: harness assertions carry their message ("C06: ..."), which must
    # show up in the panic text; other failed checks (overflow, index) are matched by their Kani description
    msgs = []
    for fc in res.get("failed", []):
        raw = fc.get("desc", "").strip()
        custom = raw.startswith('"')
        d = re.sub(r"^assertion failed: ", "", raw.strip('"'))
        if len(d) >= 8:
            msgs.append(d[:60] if custom else d[:20])
    rec["expect_msgs"] = msgs
    ok, detail = native_run(spec, tests, expect_msgs=msgs)
    rec["reproduced"] = ok
    rec["native_detail"] = detail
    json.dump(rec, open(path, "w"), indent=1)
    kani.log("replay %s: %s" % (spec["name"], detail[:300]))
    return dict(reproduced=ok, path=path, why=detail)


def replay_file(path):
    """Re-run a stored counterexample against the current /repo natively; True if it still reproduces."""
    rec = json.load(open(path))
    if "tests" not in rec:
        print("replay file has no concrete test (engine Z or unreproduced): %s" % rec.get("why", rec.get("model")))
        return False
    spec = dict(name=rec["harness"], config=rec["config"], file=rec["file"], harness_file=rec["harness_file"],
                rewrites=[tuple(r) for r in rec.get("rewrites", [])])
    ok, detail = native_run(spec, [(t["name"], t["source"]) for t in rec["tests"]], tag="replayfile", expect_msgs=rec.get("expect_msgs"))
    print(detail)
    return ok
