#!/bin/sh
# usage: trace.sh <property> <harness> [seconds]  -- runs one harness with VERIF_KEEP, then re-runs cbmc at verbosity 9 and summarises unwinding
P=$1; H=$2; S=${3:-120}
cd /verif && VERIF_KEEP=1 ./check $P --only $H --no-evidence --cap-scale 0.02 >/dev/null 2>&1
D=$(ls -dt /tmp/tonic-verif.*.k | head -1)
M=$(find $D/target -name "*.kani-metadata.json" | xargs ls -t | head -1)
python3 - "$M" "$H" <<'PY'
import json,sys,subprocess
m=json.load(open(sys.argv[1]))
h=[x for x in m['proof_harnesses'] if x['pretty_name'].endswith(sys.argv[2])][0]
sym=h['goto_file']; linked=sym[:-len('.symtab.out')]+'.out'; w='/tmp/trace_%s.goto'%sys.argv[2]
for c in (["goto-cc",linked,"--function",h['mangled_name'],"-o",w],["goto-instrument","--add-library","--no-malloc-may-fail",w,w],["goto-instrument","--generate-function-body-options","assert-false-assume-false","--generate-function-body",".*","--drop-unused-functions",w,w],["goto-instrument","--ensure-one-backedge-per-target",w,w]):
    subprocess.run(c,stdout=subprocess.DEVNULL,stderr=subprocess.DEVNULL,check=True)
PY
rm -rf $D
shift 3 2>/dev/null
timeout $S cbmc --no-malloc-may-fail --no-undefined-shift-check --no-signed-overflow-check --nan-check --no-self-loops-to-assumptions --no-pointer-primitive-check --object-bits 16 "$@" --sat-solver cadical --slice-formula /tmp/trace_$H.goto --verbosity 9 > /tmp/trace_$H.log 2>&1
grep "Unwinding loop" /tmp/trace_$H.log | sed 's/iteration [0-9]*//; s/ file .* function / /' | sort | uniq -c | sort -rn | head -25
grep -E "Runtime|size of program|SAT checker|VERIFICATION" /tmp/trace_$H.log | tail -8
tail -c 600 /tmp/trace_$H.log
