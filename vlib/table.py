"""Harness table: which solver obligations decide which property (DESIGN §4).

Each entry: name (the #[kani::proof] fn), props, config, file (real /repo file the harness module is a child of),
harness_file (under /verif/harness), tier, unwind (None = attribute in source), cap_s, obligation text, functions, bounds.
"""

T = []

FMT = "alloc::fmt::format stubbed (returns empty String): message texts are outside the claim"
TRACING = "tracing macros are no-ops (shim crate); log arguments are not evaluated"
HTTPH = "http::HeaderMap hash function replaced by a constant (all keys collide; probing/robin-hood code is real)"
VBYTES = "bytes::{Bytes,BytesMut} replaced by the Vec-backed model /verif/shims/vbytes (Buf/BufMut traits are the original files)"


def H(name, props, config, file, harness_file, obligation, functions, bounds, tier="quick", unwind=None, cap_s=240, **kw):
    d = dict(name=name, props=props if isinstance(props, list) else [props], config=config, file=file, harness_file=harness_file,
             obligation=obligation, functions=functions, bounds=bounds, tier=tier, unwind=unwind, cap_s=cap_s, engine="K")
    d.setdefault("stubs", [])
    d.update(kw)
    st = set(d.get("stubs", [])) | {FMT, TRACING}
    if "vb" in config:
        st.add(VBYTES)
    d["stubs"] = sorted(st)
    T.append(d)


DEC = ("tonic/src/codec/decode.rs", "tonic/codec_decode.rs")
DEC_FUNCS = ["tonic::codec::decode::StreamingInner::decode_chunk"]

for n, N in (("p0", 5), ("p1", 6), ("p3", 8)):
    H("dec_hdr_" + n, ["C06", "C05", "C07", "C01"], "core", *DEC,
      obligation="L1/N4/T1a: header step of decode_chunk: accepted iff flag=0 and BE length <= limit; OUT_OF_RANGE / INTERNAL otherwise; "
                 "no buffer growth on refusal",
      functions=DEC_FUNCS, bounds="all %d-byte buffers (5 prefix + %d payload), all Option<usize> limits, 3 directions" % (N, N - 5))
H("dec_hdr_p7", ["C06", "C05", "C07", "C01"], "core", *DEC, tier="thorough", cap_s=1200,
  obligation="L1/N4/T1a header step, longer payload", functions=DEC_FUNCS, bounds="all 12-byte buffers, all limits")
for n in ("0", "2", "4"):
    H("dec_short_" + n, ["C01", "C07"], "core", *DEC,
      obligation="D1: fewer than 5 buffered bytes: no message, no error, nothing consumed",
      functions=DEC_FUNCS, bounds="all %s-byte buffers" % n)
for n, t in (("0", "quick"), ("3", "quick"), ("5", "thorough")):
    H("dec_body_" + n, ["C01", "C07"], "core", *DEC, tier=t,
      obligation="D1/T2: body phase: message iff len bytes buffered; decode view is exactly the payload bytes",
      functions=DEC_FUNCS + ["tonic::codec::buffer::DecodeBuf"], bounds="all %s-byte buffers, len <= 8" % n)
for n, t in (("0", "quick"), ("1", "quick"), ("6", "quick")):
    H("pf_eof_" + n, ["C07"], "core", *DEC, tier=t,
      obligation="T1a: body ended: leftover bytes => INTERNAL error, none => clean end, never Pending",
      functions=["tonic::codec::decode::StreamingInner::poll_frame"], bounds="all %s-byte leftovers, any state/direction" % n,
      may_be_uncovered=["unexpected eof"] if n == "0" else ["clean end"])


def select(pid, tier, seed=0):
    out = []
    for d in T:
        if pid not in d["props"]:
            continue
        if tier == "quick" and d["tier"] != "quick":
            continue
        out.append(dict(d))
    return out


def all_props():
    s = set()
    for d in T:
        s.update(d["props"])
    return sorted(s)
