"""Harness table: which solver obligations decide which property (DESIGN §4).

Each entry: name (the #[kani::proof] fn), props, config, file (real /repo file the harness module is a child of),
harness_file (under /verif/harness), tier, unwind (None = attribute in source), cap_s, obligation text, functions, bounds.
"""

T = []

FMT = "alloc::fmt::format stubbed (returns empty String): message texts are outside the claim"
TRACING = "tracing macros are no-ops (shim crate); log arguments are not evaluated"
HTTPH = "http::HeaderMap hash function replaced by a constant (all keys collide; probing/robin-hood/entry code is real)"
VBYTES = "bytes::{Bytes,BytesMut} replaced by the Vec-backed model /verif/shims/vbytes (Buf/BufMut traits are the original files)"


def H(name, props, config, file, harness_file, obligation, functions, bounds, tier="quick", unwind=None, cap_s=240, **kw):
    d = dict(name=name, props=props if isinstance(props, list) else [props], config=config, file=file, harness_file=harness_file,
             obligation=obligation, functions=functions, bounds=bounds, tier=tier, unwind=unwind, cap_s=cap_s, engine="K")
    d.setdefault("stubs", [])
    d.update(kw)
    st = set(d.get("stubs", [])) | {FMT, TRACING}
    if "vb" in config:
        st.add(VBYTES)
    d["stubs"] = sorted(st)
    T.append(d)


UW_MAPS = [("drop_glue::<[http::header::map::Bucket<", 4), ("drop_glue::<[http::header::map::ExtraValue<", 3)]

DEC = ("tonic/src/codec/decode.rs", "tonic/codec_decode.rs")
DEC_FUNCS = ["tonic::codec::decode::StreamingInner::decode_chunk"]

for n, N in (("p0", 5), ("p1", 6), ("p3", 8)):
    H("dec_hdr_" + n, ["C06", "C05", "C07", "C01"], "core", *DEC,
      obligation="L1/N4/T1a: header step of decode_chunk: accepted iff flag=0 and BE length <= limit; OUT_OF_RANGE / INTERNAL otherwise; "
                 "no buffer growth on refusal",
      functions=DEC_FUNCS, bounds="all %d-byte buffers (5 prefix + %d payload), all Option<usize> limits, 3 directions" % (N, N - 5))
H("dec_hdr_p7", ["C06", "C05", "C07", "C01"], "core", *DEC, tier="quick", cap_s=600,
  obligation="L1/N4/T1a header step, longer payload", functions=DEC_FUNCS, bounds="all 12-byte buffers, all limits")
for n in ("0", "2", "4"):
    H("dec_short_" + n, ["C01", "C07"], "core", *DEC,
      obligation="D1: fewer than 5 buffered bytes: no message, no error, nothing consumed",
      functions=DEC_FUNCS, bounds="all %s-byte buffers" % n)
for n, t in (("0", "quick"), ("3", "quick"), ("5", "quick"), ("8", "quick"), ("16", "thorough")):
    H("dec_body_" + n, ["C01", "C07"], "core", *DEC, tier=t,
      obligation="D1/T2: body phase: message iff len bytes buffered; decode view is exactly the payload bytes",
      functions=DEC_FUNCS + ["tonic::codec::buffer::DecodeBuf"], bounds="all %s-byte buffers, len <= %s" % (n, "8" if int(n) <= 8 else "16"),
      may_be_uncovered=["payload incomplete"] if int(n) >= 8 else [])
for n, t in (("0", "quick"), ("1", "quick"), ("6", "quick")):
    H("pf_eof_" + n, ["C07"], "core", *DEC, tier=t,
      obligation="T1a: body ended: leftover bytes => INTERNAL error, none => clean end, never Pending",
      functions=["tonic::codec::decode::StreamingInner::poll_frame"], bounds="all %s-byte leftovers, any state/direction" % n,
      may_be_uncovered=[] if n == "0" else ["clean end"])

ENC = ("tonic/src/codec/encode.rs", "tonic/codec_encode.rs")
for (p_, k, l_, m_, t, cap) in ((0, 1, 1, 63, "quick", 900), (3, 1, 2, 63, "quick", 900), (0, 2, 1, 63, "quick", 1500),
                              (6, 2, 2, 63, "thorough", 1500), (5, 2, 0, 63, "thorough", 1500), (0, 1, 1, 31, "thorough", 1500)):
    H("enc_step_p%d_k%d_l%d_m%d" % (p_, k, l_, m_), ["C01", "C06", "C03", "C02"], "core_vb", *ENC, tier=t, cap_s=cap, mem_gb=20,
      obligation="E2/L3/W2: one poll of EncodedBytes::poll_next from an arbitrary state equals the reference batching model: outcome "
                 "(Pending/End/chunk/error code), chunk length = old buffer + reference frames of the messages taken%s; Pending only "
                 "when nothing is buffered; an encode failure (over limit / encoder error) or source error is handed out after the frames "
                 "encoded before it with no byte of the failed message; exact limit comparison; saved error hand-off"
                 % ("" if m_ & 32 else " and equal bytes"),
      functions=["tonic::codec::encode::EncodedBytes::poll_next", "tonic::codec::encode::encode_item",
                 "tonic::codec::encode::finish_encoding", "tonic::codec::buffer::EncodeBuf"],
      bounds="%d arbitrary pre-buffered bytes, %d symbolic source events (Pending/End/Item/Err) then Pending, messages of %d symbolic "
             "bytes, limit: any Option<usize>, yield_threshold: any usize, pending error: any" % (p_, k, l_),
      outside=["messages longer than 2 bytes", "more than 2 source events per poll", "compressed path"],
      may_be_uncovered=(["pending", "end"] if p_ > 0 else []) + (["error saved for the next poll"] if (p_ == 0 and k == 1) else []),
      unwindset=UW_MAPS + [("codec::encode::EncodedBytes<", k + 2)])
for p_, l_ in ((0, 0), (0, 2), (6, 1)):
    H("enc_item_p%d_l%d" % (p_, l_), ["C01", "C03", "C06"], "core", *ENC, cap_s=600,
      obligation="E1/W1: encode_item appends exactly [0, BE32(len), payload] behind the bytes already buffered (earlier frames untouched); "
                 "refused with OUT_OF_RANGE iff len > limit",
      functions=["tonic::codec::encode::encode_item", "tonic::codec::encode::finish_encoding", "tonic::codec::buffer::EncodeBuf"],
      bounds="%d pre-buffered symbolic bytes, payload of %d symbolic bytes, any Option<usize> limit" % (p_, l_),
      may_be_uncovered=["refused"] if l_ == 0 else [])
H("enc_finish_slice", ["C06", "C03", "C01"], "core", *ENC,
  obligation="L2/W1: finish_encoding writes [0, BE32(len)] and leaves the payload alone iff len <= limit, else OUT_OF_RANGE",
  functions=["tonic::codec::encode::finish_encoding"], bounds="all slices of length 5..=12 (symbolic length), any Option<usize> limit")

ST = ("tonic/src/status.rs", "tonic/status.rs")
H("st_code_from_bytes", ["C04"], "core", *ST, obligation="H1: Code::from_bytes == reference grammar ('0'..'16' canonical decimal, else UNKNOWN)",
  functions=["tonic::Code::from_bytes"], bounds="all byte strings of length 0..=16 (symbolic length)")
H("st_code_roundtrip", ["C04"], "core", *ST, obligation="H1: for all 17 codes: from_i32/i32::from agree with the gRPC table, header text is the "
  "canonical decimal, from_bytes(to_header_value(c)) == c", functions=["tonic::Code::to_header_value", "tonic::Code::from_bytes", "tonic::Code::from_i32"],
  bounds="all 17 codes")
H("st_code_from_i32_total", ["C04"], "core", *ST, obligation="H1: Code::from_i32 total: out-of-range => UNKNOWN",
  functions=["tonic::Code::from_i32"], bounds="all i32", may_be_uncovered=[])
H("st_infer_http", ["C04", "C02"], "core", *ST, obligation="H5: infer_grpc_status(None, http_status) == gRPC http-grpc-status-mapping table; 200 => Err(None)",
  functions=["tonic::status::infer_grpc_status"], bounds="all HTTP status codes 100..=599")
H("st_h2_reason_map", ["C04"], "transport", *ST, obligation="H6: code_from_h2 over every u32 HTTP/2 error code == PROTOCOL-HTTP2 error table (codes the statement lists)",
  functions=["tonic::Status::code_from_h2"], bounds="all u32 reason values")
H("st_to_h2_error", ["C04"], "transport", *ST, obligation="H6: to_h2_error: CANCELLED => CANCEL, everything else INTERNAL_ERROR",
  functions=["tonic::Status::to_h2_error"], bounds="all 17 codes")
for n in (1, 2):
    H("st_fhm_status_%d" % n, ["C04", "C02"], "core", *ST, cap_s=1500, tier="thorough", optional=True, stubs=[HTTPH],
      obligation="H4: from_header_map on a real 1-entry map: code == reference parse of the grpc-status bytes, no panic",
      functions=["tonic::Status::from_header_map", "tonic::Code::from_bytes", "http::HeaderMap::{insert,get,clone,remove}"],
      bounds="grpc-status value: all %d-byte header-legal values" % n)
H("st_fhm_absent", ["C04"], "core", *ST, cap_s=300, stubs=[HTTPH], obligation="H4: no grpc-status => None",
  functions=["tonic::Status::from_header_map"], bounds="empty map")
for n, t in ((2, "thorough"), (3, "thorough")):
    H("st_fhm_details_%d" % n, ["C04"], "core", *ST, cap_s=1500, tier=t, optional=True, stubs=[HTTPH],
      obligation="H4: from_header_map with arbitrary grpc-status-details-bin bytes: never panics; bytes outside the base64 alphabet "
                 "=> UNKNOWN error status (regression check for the fixed F1 panic)",
      functions=["tonic::Status::from_header_map", "tonic::util::base64::STANDARD (padding-indifferent)"],
      bounds="details value: all %d-byte header-legal values; 2-entry map" % n)

CMP = ("tonic/src/codec/compression.rs", "tonic/codec_compression.rs")
UW_NAME = [("http::header::name::", 24), ("HdrName", 24), ("parse_hdr", 24)]
H("cmp_enabled_set", ["C05"], "comp_vb", *CMP, cap_s=1500, mem_gb=24, tier="thorough", optional=True, unwind=6,
  unwindset=UW_MAPS + [("verif_codec_compression", 34), ("http::HeaderValue", 30), ("header::value", 30), ("function memcmp", 30)],
  obligation="N3: EnabledCompressionEncodings after any <=4 enable() calls: is_enabled/is_empty match the history; the accept header "
             "value is exactly the enabled names in order + 'identity'; pop removes the last",
  functions=["EnabledCompressionEncodings::{enable,is_enabled,is_empty,pop,into_accept_encoding_header_value}"],
  bounds="all sequences of <= 4 enable() calls over {gzip,deflate,zstd}")
for nm, val in (("gzip", "gzip"), ("deflate", "deflate"), ("identity", "identity"), ("sym4", "any 4 header-legal bytes")):
    H("cmp_enc_hdr_" + nm, ["C05"], "comp_vb", *CMP, cap_s=1500, tier="thorough", optional=True, stubs=[HTTPH],
      obligation="N2: from_encoding_header on a real 1-entry map: Ok(Some(e)) iff the value names e and e is enabled; identity => Ok(None); "
                 "otherwise Err(UNIMPLEMENTED)",
      functions=["CompressionEncoding::from_encoding_header", "http::HeaderMap::{insert,get}"],
      bounds="grpc-encoding = %s; enabled set: any state reachable by <= 4 enable() calls" % val,
      may_be_uncovered=["accepted encoding", "identity", "refused"])
for nm, val in (("zstd_gzip", "'zstd, gzip'"), ("deflate_id", "'deflate,identity'"), ("sym4", "any 4 header-legal bytes"), ("absent", "header absent")):
    H("cmp_accept_" + nm, ["C05"], "comp", *CMP, cap_s=900 if nm == "absent" else 3600, tier="quick" if nm == "absent" else "thorough",
      optional=(nm != "absent"), stubs=[HTTPH],
      obligation="N1: from_accept_encoding_header: the result is the first offered (comma-separated, trimmed) encoding that is enabled "
                 "for sending; None if there is none (regression check for fixed F3)",
      functions=["CompressionEncoding::from_accept_encoding_header", "split_by_comma", "http::HeaderMap::{insert,get}"],
      bounds="grpc-accept-encoding = %s; enabled set: any state reachable by <= 4 enable() calls" % val,
      may_be_uncovered=["encoding chosen", "identity"] if nm == "absent" else [])

GT = ("tonic/src/transport/service/grpc_timeout.rs", "tonic/grpc_timeout.rs")
for nm, b, t, cap in (("1", "all 1-byte header-legal values", "quick", 600), ("2", "all 2-byte header-legal values", "quick", 900),
                      ("3", "all 3-byte header-legal values", "quick", 1200), ("tail_9", "'999999' + any 3 bytes (9 bytes)", "quick", 1200),
                      ("tail_10", "'9999999' + any 3 bytes (10 bytes)", "quick", 900), ("4", "all 4-byte header-legal values", "quick", 900), ("5", "all 5-byte header-legal values", "thorough", 1500), ("6", "all 6-byte header-legal values", "thorough", 1500), ("absent", "header absent", "quick", 300)):
    H("gt_parse_" + nm, ["C09"], "transport", *GT, tier=t, cap_s=cap, stubs=[HTTPH],
      obligation="G2: try_parse_grpc_timeout on a real 1-entry map == reference grammar (1..8 digits + unit in HMSmun => exact Duration; "
                 "anything else ignored), no panic",
      functions=["tonic::transport::service::grpc_timeout::try_parse_grpc_timeout", "http::HeaderMap::{insert,get(&str)}"],
      bounds="grpc-timeout value: " + b,
      may_be_uncovered=(["well-formed value parsed"] if nm in ("1", "tail_10") else []) + (["well-formed value parsed", "malformed value ignored"] if nm == "absent" else []))
H("gt_select_min", ["C09"], "transport", *GT, cap_s=1500, mem_gb=28, tier="quick", stubs=[HTTPH, "tokio::time::sleep stubbed: asserts its argument == min(header, configured) and ends the path (no runtime)"],
  obligation="G4: GrpcTimeout::call arms the timer with min(caller grpc-timeout, configured timeout); no timer when both are absent",
  functions=["GrpcTimeout::call", "try_parse_grpc_timeout"],
  bounds="caller timeout absent / '<digit>S' / '<digit>m' / malformed '<digit>x'; configured timeout: None or any whole milliseconds < 65536",
  outside=["the race between the inner future and the Sleep in ResponseFuture::poll (needs a tokio timer)"])

RC = ("tonic/src/transport/channel/service/reconnect.rs", "tonic/reconnect.rs")
for k, t, cap in ((2, "quick", 600), (3, "quick", 900), (4, "quick", 900), (5, "quick", 1200), (6, "quick", 1200), (8, "quick", 1200), (12, "thorough", 1500)):
    H("rc_step_k%d" % k, ["C14"], "transport", *RC, tier=t, cap_s=cap, unwindset=UW_MAPS + [("Reconnect<", 2 * k + 4)],
      may_be_uncovered=["recovery script"] if k < 3 else [],
      obligation="Reconnect from every state (Idle/Connecting/Connected x saved error x lazy/eager x has_been_connected), one poll_ready "
                 "against every fault script of %d events, then one call: no 'service not ready' panic; eager+never-connected reports the "
                 "first connect failure from poll_ready; otherwise a failure is parked, handed to exactly one call (with the id of the "
                 "failed attempt) and cleared; no new attempt while an error is undelivered; a completed connect future is never polled "
                 "again; connector ready + connect ok + connection ready => the call reaches the connection; has_been_connected never "
                 "reverts (so only the initial failure of an eager channel can come out of poll_ready)" % k,
      functions=["Reconnect::poll_ready", "Reconnect::call", "reconnect::ResponseFuture::poll"],
      bounds="all scripts of %d events over {connector ready/pending, connect ok/pending/fail, connection ready/pending/dropped}; "
             "poll_ready loop bound %d (checked by unwinding assertion)" % (k, 2 * k + 4),
      outside=["tower Buffer worker, hyper connection tasks, Endpoint::connect*: the end-to-end 'every call completes'"],
      assumes=["pre-state invariant: a saved error implies state Idle and (has_been_connected or lazy); Connected implies has_been_connected"])

ME = ("tonic/src/metadata/encoding.rs", "tonic/metadata_encoding.rs")
MM = ("tonic/src/metadata/map.rs", "tonic/metadata_map.rs")
for n, t, cap in ((0, "quick", 300), (1, "thorough", 1800), (2, "thorough", 1800), (3, "thorough", 1500)):
    H("md_bin_roundtrip_%d" % n, ["C08", "C04"], "core", *ME, tier=t, cap_s=cap,
      obligation="M3/H3: Binary::from_bytes writes unpadded standard base64 (== arithmetic reference); decode of that and of the '='-padded "
                 "spelling both give back the original bytes",
      functions=["metadata::encoding::Binary::{from_bytes,decode}", "tonic::util::base64::{STANDARD, STANDARD_NO_PAD}"],
      bounds="all %d-byte values" % n, outside=["values longer than 3 bytes (one base64 quantum)"])
H("md_key_classification", ["C08"], "core", *ME, cap_s=600,
  obligation="M4: Binary::is_valid_key(k) <=> k ends with '-bin'; Ascii::is_valid_key == !Binary",
  functions=["metadata::encoding::{Binary,Ascii}::is_valid_key"], bounds="all ASCII keys of length 0..=7 (symbolic length)")
for nm in ("te", "user_agent", "content_type", "grpc_status", "grpc_message", "grpc_message_type"):
    H("md_sanitize_" + nm, ["C08", "C04"], "core", *MM, cap_s=1500, tier="thorough", optional=True, stubs=[HTTPH],
      obligation="M1: into_sanitized_headers on a real 2-entry map {reserved name, user entry} in either order: reserved name absent, user "
                 "entry intact (reserved names taken from the property statement, not from tonic's array)",
      functions=["MetadataMap::into_sanitized_headers", "MetadataMap::from_headers", "http::HeaderMap::{insert,remove,get}"],
      bounds="reserved name '%s'; user value: all 2-byte visible-ASCII values; both insertion orders" % nm.replace("_", "-"))
H("md_typed_access", ["C08"], "core", *MM, cap_s=900, stubs=[HTTPH],
  obligation="M4: a one-entry map with key 'x-a' / 'x-a-bin': exactly the accessor (get / get_bin / iter variant) of its kind sees the entry",
  functions=["MetadataMap::{get,get_bin,iter}"], bounds="2 keys (ASCII, binary)")


WEB = ("tonic-web/src/call.rs", "web/call.rs")
H("web_find_trailers_12", ["C17"], "web_vb", *WEB, cap_s=900,
  obligation="U1: find_trailers == independent frame walker (Trailer(off) / Done(off) / IncompleteBuf / error on flag > 1)",
  functions=["tonic_web::call::find_trailers"], bounds="all buffers of length 0..=12 (symbolic length)")
H("web_find_trailers_17", ["C17"], "web_vb", *WEB, tier="quick", cap_s=900,
  obligation="U1: find_trailers == independent frame walker", functions=["tonic_web::call::find_trailers"],
  bounds="all buffers of length 0..=17 (symbolic length)")
H("web_trailers_frame_repeated", ["C16"], "web_vb", *WEB, cap_s=1500, tier="thorough", optional=True, stubs=[HTTPH],
  obligation="R2: make_trailers_frame/encode_trailers: flag 0x80, BE32 length, one 'name:value\\r\\n' line per trailer *value* "
             "(repeated names included)",
  functions=["tonic_web::call::make_trailers_frame", "tonic_web::call::encode_trailers"],
  bounds="3 trailers over 2 names (one repeated), 1-byte visible-ASCII symbolic values")
H("web_decode_trailers_colon_repeat", ["C17"], "web_vb", *WEB, cap_s=1500, mem_gb=24, tier="thorough", optional=True, stubs=[HTTPH],
  obligation="U2: decode_trailers_frame: every name with its full value: values containing ':' survive, repeated names keep all values",
  functions=["tonic_web::call::decode_trailers_frame"],
  bounds="frame with two lines for the same name; values of 3 and 1 symbolic visible-ASCII bytes (':' and inner ' ' included)")
for n, k, t, cap in ((0, 1, "thorough", 1500), (3, 1, "thorough", 1500), (6, 1, "thorough", 1500), (4, 2, "thorough", 1500), (7, 2, "thorough", 1500)):
    H("web_client_step_n%d_k%d" % (n, k), ["C17"], "web_vb", *WEB, tier=t, cap_s=cap, mem_gb=24, optional=True,
      stubs=[HTTPH, "decode_trailers_frame replaced by a stub that asserts it receives exactly one complete trailers frame and returns an "
             "empty map (the real parser is a separate obligation)"],
      unwindset=UW_MAPS + [("tonic_web::GrpcWebCall<", 2 * k + 4), ("call::GrpcWebCall<", 2 * k + 4)],
      obligation="U3: one poll_frame of the client-side GrpcWebCall from %d arbitrary buffered bytes against every inner-body script of %d "
                 "events: returns within the loop bound; data frames are whole message frames of the received bytes; clean end only if "
                 "the inner body ended and nothing is buffered (a body cut inside a frame is an error); Pending only while the inner "
                 "body is alive; after trailers/error/end the body is terminal and the inner body is never polled again" % (n, k),
      functions=["tonic_web::GrpcWebCall::poll_frame (client, Decode)", "tonic_web::call::find_trailers", "tonic_web::call::trailers_frame_len",
                 "tonic_web::GrpcWebCall::poll_decode"],
      bounds="%d symbolic buffered bytes; %d symbolic inner events over {Pending, End, 2-byte data chunk, error}; loop bound %d" % (n, k, 2 * k + 4))
for n in (3, 4, 6):
    H("web_server_b64_chunk_%d" % n, ["C16"], "web_vb", *WEB, cap_s=900,
      obligation="R1: GrpcWebCall::decode_chunk (base64 request): exactly the largest multiple-of-4 prefix is consumed and equals the "
                 "arithmetic reference decoding; the remainder stays buffered unchanged",
      functions=["tonic_web::GrpcWebCall::decode_chunk", "tonic_web::util::base64::STANDARD"],
      bounds="all %d-character strings over the base64 alphabet" % n,
      may_be_uncovered=["decoded"] if n < 4 else ["fewer than four characters"])

TY = ("tonic-types/src/richer_error/std_messages/retry_info.rs", "types/retry_info.rs")
H("ty_retry_delay_conversion", ["C20"], "types", *TY, cap_s=600,
  obligation="Y1: RetryInfo::new / From<RetryInfo> for pb::RetryInfo / From<pb::RetryInfo>: for every std Duration the delay that comes "
             "back is min(d, protobuf max), exactly",
  functions=["RetryInfo::new", "impl From<RetryInfo> for pb::RetryInfo", "impl From<pb::RetryInfo> for RetryInfo",
             "prost_types::Duration::try_from"],
  bounds="all std::time::Duration values (u64 seconds x nanos < 1e9)")
H("ty_retry_delay_none", ["C20"], "types", *TY, cap_s=300, obligation="Y1: absent delay stays absent", functions=["RetryInfo::new"], bounds="None")
H("ty_retry_info_any_roundtrip", ["C20"], "types", *TY, cap_s=1500, tier="thorough", optional=True,
  obligation="Y2 (RetryInfo): detail -> Any (prost encode) -> detail (prost decode) is the identity inside the protobuf range",
  functions=["RetryInfo::into_any", "RetryInfo::from_any_ref", "prost::Message::{encode_to_vec,decode}"],
  bounds="all delays with seconds <= 315576000000, nanos < 1e9")

TYM = ("tonic-types/src/richer_error/mod.rs", "types/richer_error.rs")
H("ty_details_bytes_one", ["C20"], "types_vb", *TYM, cap_s=900, mem_gb=16, tier="thorough", optional=True,
  obligation="Y3: gen_details_bytes (behind every with_error_details* constructor) writes google.rpc.Status wire bytes that carry the code "
             "and the detail handed to it - also a detail whose payload is empty - judged against hand-written protobuf bytes",
  functions=["tonic_types::richer_error::gen_details_bytes", "prost::Message::{encoded_len,encode} for pb::Status / prost_types::Any"],
  bounds="codes 1..=16, empty message, one detail with an empty type_url and a payload of 0 or 1 symbolic byte",
  outside=["messages and type URLs (string copies), more than one detail, payloads over one byte"])
IC = ("tonic/src/service/interceptor.rs", "tonic/interceptor.rs")
for nm, b in (("ic_no_headers", "empty header map"), ("ic_reserved_header", "one reserved header (te: trailers)"),
              ("ic_insert_metadata", "one reserved header; the interceptor inserts one metadata entry on accept")):
    H(nm, ["C12"], "core_vb", *IC, cap_s=1200, mem_gb=16, stubs=[HTTPH],
      obligation="InterceptedService::call + ResponseFuture::poll: accept => wrapped service called exactly once with the same method, "
                 "version, URI, body, headers (reserved name included) plus the interceptor's change; reject => wrapped service never "
                 "called and the caller gets HTTP 200 + content-type application/grpc + grpc-status = the interceptor's code",
      functions=["InterceptedService::call", "interceptor::ResponseFuture::poll", "Request::{from_http,into_parts,from_parts,into_http}",
                 "Status::into_http"],
      bounds="method: 6 standard methods (symbolic), version: 5 (symbolic), accept/reject symbolic, reject code 1..=16 symbolic, body: any u32; " + b,
      outside=["extensions, header maps with more than 2 entries, custom (non-standard) header names on this path"])

for n, t, cap in ((0, "thorough", 1500),):
    H("pn_glue_%d" % n, ["C07"], "core_vb", *DEC, tier=t, cap_s=cap, mem_gb=44, optional=True, unwindset=UW_MAPS + [("Streaming<", 5)],
      extra_cbmc=("--no-pointer-check", "--no-bounds-check"),
      assumes=["pn_glue_*: CBMC's generic pointer/bounds checks are switched off for this harness only (formula size); its assertions, "
               "unwinding assertions and panics stay on"],
      stubs=["StreamingInner::poll_frame replaced by a 3-event scripted stub (Pending / Ok(None) / Ok(Some) / Err) in this harness only; "
             "its own behaviour is decided by pf_eof_*",
             "crate::status::infer_grpc_status replaced by a stub returning any of Ok / Err(None) / Err(Some(status)) in this harness only"],
      obligation="T1b: Streaming::poll_next glue: any Err coming out of decode_chunk (real) or poll_frame (scripted) is yielded once and "
                 "leaves the stream terminal (State::Error(None)); a terminal stream returns None without polling the body or touching "
                 "the buffer; a yielded message is a complete legal frame of the buffered input",
      functions=["tonic::codec::decode::Streaming::poll_next", "Streaming::decode_chunk", "StreamingInner::decode_chunk",
                 "StreamingInner::fail", "StreamingInner::response"],
      bounds="%d symbolic buffered bytes, any limit, any direction, 2 scripted poll_frame outcomes, start state ReadHeader or Error(None)" % n)

RQ = ("tonic/src/request.rs", "tonic/request.rs")
RQ_REWRITE = [("tonic/src/request.rs", 'Some(format!("{}{}", value, unit))', 'Some(self::verif_request::record_timeout(value, unit))', 1)]
for nm, b in (("subsecond_units", "secs < 131_072, any nanos (units n/u/m and the first S values)"),
              ("seconds_minutes", "100_000 <= secs < 2^33 (S, M and the first H values)"),
              ("hours", "2^33 <= secs <= 99_999_999 h (the largest representable timeout), incl. everything beyond 2^64 ns")):
    H("rq_timeout_" + nm, ["C09"], "core", *RQ, cap_s=1500, rewrites=RQ_REWRITE,
      stubs=["in the scratch copy the call format!(\"{}{}\", value, unit) inside duration_to_grpc_timeout is textually replaced by a "
             "recorder of (value, unit); decimal rendering by core::fmt is trusted"],
      obligation="G1: duration_to_grpc_timeout: the (value, unit) it writes has value <= 99_999_999 (8 digits) and equals the reference "
                 "(floor(requested/unit) for the most precise of n,u,m,S,M,H that fits) - which is what 'never longer than requested, less "
                 "than one unit lost' means; the floor-division identities themselves are arithmetic facts, not solver obligations",
      functions=["tonic::request::duration_to_grpc_timeout", "duration_to_grpc_timeout::try_format + 6 closures",
                 "core::time::Duration::{as_nanos,as_micros,as_millis,as_secs}"],
      bounds="all Durations with " + b,
      outside=["durations above 99_999_999 hours (documented expect() panic)"])

H("st_add_header_msg1", ["C04"], "core_vb", *ST, cap_s=1500, mem_gb=24, tier="thorough", optional=True, stubs=[HTTPH],
  obligation="H2 (write side): Status::to_header_map for any code and any one-character ASCII message: grpc-status = decimal code, "
             "grpc-message = the character itself or %XX exactly for the gRPC escape set (controls, space, \" # % < > ` ? { }), no details header",
  functions=["Status::to_header_map", "Status::add_header", "percent_encoding::percent_encode(ENCODING_SET)"],
  bounds="all 17 codes x all 128 one-byte messages", outside=["messages longer than one byte; the read side (percent_decode) - see P33"])

H("st_add_header_repeated_md", ["C08", "C04", "C02"], "core", *ST, cap_s=1500, tier="thorough", optional=True, stubs=[HTTPH],
  obligation="M2/H: Status::to_header_map with metadata holding one key with two values: both values arrive, in order, next to grpc-status",
  functions=["Status::to_header_map", "Status::add_header", "MetadataMap::into_sanitized_headers", "http::HeaderMap::{append,clone,extend,get_all}"],
  bounds="one user key with two 1-byte visible-ASCII symbolic values")

H("web_find_trailers_7", ["C17"], "web_vb", *WEB, cap_s=600,
  obligation="U1: find_trailers == independent frame walker", functions=["tonic_web::call::find_trailers"],
  bounds="all buffers of length 0..=7 (symbolic length)", may_be_uncovered=["trailers after a message", "whole messages, no trailers yet"])
H("web_trailers_frame_len_10", ["C17"], "web_vb", *WEB, cap_s=600,
  obligation="U3 kernel: trailers_frame_len == Some(5 + BE32 length) iff that many bytes are buffered (the client loop waits for the whole "
             "trailers frame before parsing it)", functions=["tonic_web::call::trailers_frame_len"],
  bounds="all buffers of length 0..=10 (symbolic length)")

for nm, b in (("2_unpadded", "'XX'"), ("2_padded", "'XX=='"), ("3_unpadded", "'XXX'"), ("3_padded", "'XXX='")):
    H("md_bin_decode_" + nm, ["C08", "C04"], "core", *ME, cap_s=900, mem_gb=16,
      obligation="M3 (read side): Binary::decode accepts a peer's base64 value with and without '=' padding and yields the bytes of an "
                 "arithmetic reference decoder",
      functions=["metadata::encoding::Binary::decode", "tonic::util::base64::STANDARD (DecodePaddingMode::Indifferent)"],
      bounds="all canonical values of the shape %s over the base64 alphabet" % b)
H("web_encode_trailers_repeated", ["C16"], "web", *WEB, cap_s=1500, tier="thorough", optional=True, stubs=[HTTPH],
  obligation="R2 kernel: encode_trailers lists every value of a repeated trailer name, one 'name:value CRLF' line each, in order",
  functions=["tonic_web::call::encode_trailers", "http::HeaderMap::{append,iter}"],
  bounds="one name with two 1-byte visible-ASCII symbolic values")

for p_ in (0, 4):
    H("enc_body_step_p%d" % p_, ["C03", "C02"], "core_vb", *ENC, cap_s=1500, mem_gb=22, tier="thorough", optional=True,
      stubs=["Status::to_header_map replaced by a recorder of the code that returns an empty map (header encoding is decided in C04)"],
      obligation="S1/W2: one poll of EncodeBody::poll_frame from every state (role, is_end_stream, %d buffered bytes) against every source "
                 "event: a server emits exactly one trailers block carrying the handler's code (OK at end of stream), only after the "
                 "buffered frames, and nothing (no data, no second status, no source poll) after it; a client never emits trailers and "
                 "surfaces a source error as the body error" % p_,
      functions=["tonic::codec::EncodeBody::poll_frame", "EncodeState::trailers", "EncodedBytes::poll_next"],
      bounds="%d symbolic buffered bytes, one symbolic source event, role and is_end_stream symbolic" % p_,
      may_be_uncovered=(["trailers frame", "body error", "client end", "pending"] if p_ > 0 else []),
      unwindset=UW_MAPS + [("codec::encode::EncodedBytes<", 3)])

H("twin_dec_hdr_false", ["C06", "C07", "C01", "C05"], "core", *DEC, tier="thorough", cap_s=600, expect="fail",
  obligation="vacuity guard: a deliberately false assertion after the decode_chunk call must be reported violated", functions=DEC_FUNCS,
  bounds="all 6-byte buffers")
H("twin_rc_false", ["C14"], "transport", *RC, tier="thorough", cap_s=900, expect="fail", unwindset=UW_MAPS + [("Reconnect<", 8)],
  obligation="vacuity guard: a deliberately false assertion after the Reconnect step must be reported violated",
  functions=["Reconnect::poll_ready"], bounds="k=2")

WSV = ("tonic-web/src/service.rs", "web/service.rs")
for nm, b in (("grpc_web", "application/grpc-web, no Accept"), ("grpc_web_proto", "application/grpc-web+proto, Accept: text+proto"),
              ("grpc_web_text", "application/grpc-web-text, Accept: text"), ("grpc_web_text_proto", "application/grpc-web-text+proto, Accept: +proto"),
              ("grpc", "application/grpc"), ("json", "application/json"), ("none", "no content-type")):
    H("web_kind_" + nm, ["C16"], "web", *WSV, cap_s=600, stubs=[HTTPH],
      obligation="R3: RequestKind::new on a real header map: grpc-web iff the content-type is one of the four grpc-web types; body text iff "
                 "a -text type; response text iff Accept is a -text type; otherwise Other(version) (HTTP/2 passes through, HTTP/1 is 400, "
                 "non-POST grpc-web is 405 by the match in GrpcWebService::call)",
      functions=["tonic_web::service::RequestKind::new", "content_types::is_grpc_web", "Encoding::{from_content_type,from_accept}"],
      bounds="content-type/accept: " + b + "; method: 5 standard methods (symbolic); version: 4 (symbolic)",
      may_be_uncovered=(["other over HTTP/2 (pass through)", "other over HTTP/1 (400)"] if nm.startswith("grpc_web") else ["POST grpc-web", "non-POST grpc-web (405)"]))

for nm, b_ in (("st_timeout_direct", "TimeoutExpired itself"), ("st_timeout_nested", "an error whose source() is a TimeoutExpired"),
               ("st_chain_unrelated", "an error whose source() is unrelated")):
    H(nm, ["C09", "C04"], "core", *ST, cap_s=900 if nm == "st_timeout_direct" else 3600, tier="quick" if nm == "st_timeout_direct" else "thorough",
      optional=(nm != "st_timeout_direct"),
      stubs=["core::fmt::write stubbed (returns Ok without writing): message texts are outside the claim"],
      obligation="G5: find_status_in_source_chain: a TimeoutExpired at the top of or one level down an error source chain => CANCELLED; "
                 "unrelated errors => no status",
      functions=["tonic::status::find_status_in_source_chain"], bounds=b_)
H("st_connect_error_unavailable", ["C14", "C04"], "core", *ST, cap_s=900,
  stubs=["core::fmt::write stubbed (returns Ok without writing): message texts are outside the claim"],
  obligation="ConnectError in an error chain => UNAVAILABLE (the status a call gets while no connection can be made)",
  functions=["tonic::status::find_status_in_source_chain"], bounds="one ConnectError wrapping an arbitrary cause")

H("dec_hdr_p11", ["C06", "C05", "C07", "C01"], "core", *DEC, tier="quick", cap_s=900,
  obligation="L1/N4/T1a header step, longer payload", functions=DEC_FUNCS, bounds="all 16-byte buffers, all limits")
H("web_find_trailers_24", ["C17"], "web_vb", *WEB, tier="quick", cap_s=900,
  obligation="U1: find_trailers == independent frame walker", functions=["tonic_web::call::find_trailers"],
  bounds="all buffers of length 0..=24 (symbolic length)")

H("dec_hdr_p27", ["C06", "C05", "C07", "C01"], "core", *DEC, tier="thorough", cap_s=1800,
  obligation="L1/N4/T1a header step, longer payload", functions=DEC_FUNCS, bounds="all 32-byte buffers, all limits")
H("web_find_trailers_40", ["C17"], "web_vb", *WEB, tier="thorough", cap_s=1500,
  obligation="U1: find_trailers == independent frame walker", functions=["tonic_web::call::find_trailers"],
  bounds="all buffers of length 0..=40 (symbolic length)")

MK = ("tonic/src/metadata/key.rs", "tonic/metadata_key.rs")
for n in (3, 5):
    H("md_key_from_bytes_%d" % n, ["C08"], "core_vb", *MK, cap_s=1500, mem_gb=24, tier="thorough", optional=True,
      obligation="M4: MetadataKey::<Ascii>::from_bytes succeeds iff the bytes are a valid header name NOT ending in -bin (case-insensitive), "
                 "MetadataKey::<Binary>::from_bytes iff valid AND ending in -bin; never both",
      functions=["MetadataKey::from_bytes", "ValueEncoding::is_valid_key", "http::HeaderName::from_bytes (as the definition of validity)"],
      bounds="all %d-byte strings" % n, may_be_uncovered=["binary key"] if n < 4 else [])
H("md_bin_values_equal_padding", ["C08"], "core_vb", *ME, cap_s=1500, mem_gb=24, tier="thorough", optional=True,
  obligation="M3: Binary::values_equal / equals: the padded and the unpadded spelling of one binary value are equal to each other and to "
             "the decoded bytes",
  functions=["metadata::encoding::Binary::{values_equal,equals,decode}"], bounds="all canonical one-byte values ('XX' vs 'XX==')")

H("cmp_enabled_set_core", ["C05"], "comp", *CMP, cap_s=600,
  obligation="N3 (set semantics): after any <= 4 enable() calls is_enabled / is_empty agree with the call history and pop removes exactly "
             "the most recently enabled encoding",
  functions=["EnabledCompressionEncodings::{enable,is_enabled,is_empty,pop}"],
  bounds="all sequences of <= 4 enable() calls over {gzip,deflate,zstd}")
BUF = ("tonic/src/codec/buffer.rs", "tonic/codec_buffer.rs")
H("buf_decode_view", ["C01", "C07"], "core", *BUF, cap_s=600,
  obligation="DecodeBuf: remaining()/chunk() expose exactly the first len bytes of the receive buffer; advance(k) consumes exactly k of "
             "them from the stream and the view still ends at the payload's end",
  functions=["tonic::codec::buffer::DecodeBuf::{new,remaining,chunk,advance}"], bounds="8 symbolic buffered bytes, any len <= 8, any k <= len")
H("buf_encode_append", ["C01", "C03"], "core", *BUF, cap_s=600,
  obligation="EncodeBuf: reserve + put_slice append exactly the encoder's bytes behind what is already buffered",
  functions=["tonic::codec::buffer::EncodeBuf::{new,reserve,put_slice}"], bounds="3 pre-buffered symbolic bytes, any 0..=4 appended symbolic bytes")

H("dec_hdr_negotiated", ["C05", "C06", "C07"], "comp", *DEC, cap_s=600,
  obligation="N4 complement: with a negotiated encoding the header step accepts flag 0 (identity) and flag 1 (exactly the negotiated "
             "encoding), flag >= 2 is INTERNAL, and the size limit applies to the on-the-wire length",
  functions=DEC_FUNCS, bounds="all 5-byte prefixes, all limits, the three encodings, 3 directions")
H("enc_finish_flag", ["C03", "C05"], "comp", *ENC, cap_s=600,
  obligation="W1: finish_encoding writes flag 1 exactly when a compression encoding is in force, and the big-endian payload length",
  functions=["tonic::codec::encode::finish_encoding"], bounds="identity + the three encodings, 8-byte frame")

H("enc_finish_any_len", ["C06", "C03", "C05"], "comp", *ENC, cap_s=600,
  obligation="L2 for every length: finish_encoding accepts iff len <= limit and len <= u32::MAX; over the limit => OUT_OF_RANGE (either code when "
             "it is over 4 GiB as well), within the limit but over 4 GiB => RESOURCE_EXHAUSTED; accepted => [flag (1 iff an encoding is in "
             "force), BE32(len)] with the payload untouched",
  functions=["tonic::codec::encode::finish_encoding"],
  bounds="every slice length 5..=isize::MAX (the slice is fabricated over an 8-byte allocation: finish_encoding reads only buf.len() and "
         "writes buf[..5], checked by CBMC's pointer checks), every Option<usize> limit, identity + 3 encodings",
  assumes=["enc_finish_any_len: the &mut [u8] argument has a symbolic length but only 8 bytes of backing store; sound because any access "
           "beyond index 7 would be reported by the (enabled) pointer checks"])
ABS = ("tonic's compress/decompress (the wrappers around flate2/zstd, which cannot be executed symbolically) replaced by an abstract invertible "
       "codec ([0xC0|encoding id] ++ input) that records the encoding it was called with: decides framing/plumbing of the compressed path, "
       "not the real compressors")
H("enc_item_compressed", ["C01", "C03", "C05", "C06"], "comp", *ENC, cap_s=600, stubs=[ABS],
  obligation="X1: encode_item with a compression encoding in force: flag 1, length prefix = compressed length, payload = the compressor's "
             "output for exactly the serialized message, compressor called with the announced encoding, send limit applied to the compressed length",
  functions=["tonic::codec::encode::encode_item", "finish_encoding"], bounds="2 pre-buffered + 2 payload symbolic bytes, 3 encodings, any limit")
H("dec_body_compressed", ["C01", "C05", "C07"], "comp", *DEC, cap_s=600, stubs=[ABS],
  obligation="X1: body phase of decode_chunk for a compressed frame: exactly the frame's payload goes to the decompressor of the negotiated "
             "encoding, the decoder's view is exactly its output, exactly len bytes are consumed",
  functions=DEC_FUNCS, bounds="5 symbolic buffered bytes, payload length 1..=5, 3 encodings")


def select(pid, tier, seed=0):
    out = []
    for d in T:
        if pid not in d["props"]:
            continue
        if tier == "quick" and d["tier"] != "quick":
            continue
        e = dict(d)
        if e.get("optional"):
            # "attempts": harnesses that are known not to reach a verdict on this machine (DESIGN §10.2/§10.6); they stay in the
            # thorough tier so that a faster machine or solver can decide them, but are capped (VERIF_ATTEMPT_CAP seconds, default 600)
            import os
            e["cap_s"] = min(e["cap_s"], int(os.environ.get("VERIF_ATTEMPT_CAP", "600")))
        out.append(e)
    return out


def all_props():
    s = set()
    for d in T:
        s.update(d["props"])
    return sorted(s)
